//! C07: diagnostics are sound, complete and placed on the offending construct

use crate::c01::{explore, Plan, What};
use crate::common::*;
use crate::e2::*;
use cooklang::error::{Severity, Stage};
use cooklang::{Converter, CooklangParser, Extensions};
use serde_json::{json, Value as J};
use std::sync::Arc;

const M: u32 = 1 << 1; // COMPONENT_MODIFIERS
const A: u32 = 1 << 3; // COMPONENT_ALIAS
const U: u32 = 1 << 5; // ADVANCED_UNITS
const MODES: u32 = 1 << 6;
const T: u32 = 1 << 10; // TIMER_REQUIRES_TIME
const I: u32 = (1 << 11) | M; // INTERMEDIATE_PREPARATIONS
/// pseudo bits: the construct is only invalid in some contexts
const NEEDS_NO_EARLIER_STEP: u32 = 1 << 30;
const NEEDS_AT_MOST_ONE_EARLIER_STEP: u32 = 1 << 29;
/// the construct is only invalid while the intermediate-preparations extension is off
const WITHOUT_INTERMEDIATE: u32 = 1 << 28;
const PSEUDO: u32 = NEEDS_NO_EARLIER_STEP | NEEDS_AT_MOST_ONE_EARLIER_STEP | WITHOUT_INTERMEDIATE;

/// (name, source of the invalid construct, extension bits the check needs)
const INLINE: &[(&str, &str, u32)] = &[
    ("empty ingredient name", "@{}", 0),
    ("empty ingredient name with quantity", "@{1%g}", 0),
    ("empty cookware name", "#{}", 0),
    ("zero denominator", "@zz{1/0}", 0),
    ("zero denominator in a mixed number", "@zz{1 1/0%g}", 0),
    ("zero denominator in a timer", "~zz{1/0%min}", 0),
    ("empty value before a unit", "@zz{%g}", 0),
    ("empty value before a unit, cookware", "#zz{ %g}", 0),
    ("unit on cookware", "#zz{1%kg}", 0),
    ("unit on cookware without %", "#zz{1 kg}", U),
    ("timer without unit", "~zz{5}", 0),
    ("nameless timer without unit", "~{5}", 0),
    ("timer with a separator but no unit", "~zz{5%}", 0),
    ("nameless timer with a padded separator but no unit", "~{45 % }", 0),
    ("timer without duration", "~zz", T),
    ("timer with empty braces", "~zz{}", T),
    ("timer with neither name nor duration", "~{}", 0),
    ("duplicate modifier ?", "@??zz{}", M),
    ("duplicate modifier &", "@yy{} @&&yy{}", M),
    ("duplicate modifier on cookware", "#??zz{}", M),
    ("recipe modifier on cookware", "#@zz{}", M),
    ("modifier on a timer", "~?zz{5%min}", M),
    ("empty alias", "@zz|{}", A),
    ("multiple aliases", "@zz|a|b{}", A),
    ("empty alias on cookware", "#zz|{}", A),
    ("alias on a timer", "~zz|a{5%min}", A),
    ("dangling reference", "@&zz{}", M),
    ("dangling cookware reference", "#&zz", M),
    ("new and reference", "@yy{} @+&yy{}", M),
    ("reference with a modifier the definition lacks", "@yy{1} @&-yy{}", M),
    ("cookware reference with a modifier the definition lacks", "#yy #&?yy", M),
    ("note on a reference", "@yy{1} @&yy{}(chopped)", M),
    ("note on a cookware reference", "#yy{} #&yy{}(big)", M),
    ("intermediate reference 0", "@&(0)zz{}", I),
    ("relative intermediate reference 0", "@&(~0)zz{}", I),
    ("section reference 0", "@&(=0)zz{}", I),
    ("intermediate reference out of range", "@&(9)zz{}", I),
    ("intermediate reference number beyond 32767", "@&(40000)zz{}", I),
    ("relative intermediate reference number beyond 32767", "@&(~65535)zz{}", I),
    ("section reference number beyond 32767", "@&(=32768)zz{}", I),
    ("reference to an undefined name that begins with a parenthesised number, intermediate preparations off", "@&(1)zz{}", M | WITHOUT_INTERMEDIATE),
    ("relative intermediate reference out of range", "@&(~9)zz{}", I),
    ("section reference out of range", "@&(=9)zz{}", I),
    ("relative section reference out of range", "@&(=~9)zz{}", I),
    ("malformed intermediate reference", "@&(x)zz{}", I),
    ("empty intermediate reference", "@&()zz{}", I),
    ("swapped markers in an intermediate reference", "@&(~=1)zz{}", I),
    ("signed intermediate reference", "@&(-1)zz{}", I),
    ("too large intermediate reference", "@&(99999)zz{}", I),
    ("intermediate reference on cookware", "#&(1)zz{}", I),
    ("intermediate reference with a forbidden modifier", "@-&(9)zz{}", I),
    // only invalid where the section has fewer earlier steps than the number (text paragraphs do not count)
    ("relative step reference beyond the steps of the section", "@&(~1)zz{}", I | NEEDS_NO_EARLIER_STEP),
    ("step reference beyond the steps of the section", "@&(1)zz{}", I | NEEDS_NO_EARLIER_STEP),
    ("relative step reference two back", "@&(~2)zz{}", I | NEEDS_AT_MOST_ONE_EARLIER_STEP),
    ("timer with a unit that is not time", "~zz{5%kg}", U),
    ("timer with an unknown unit", "~zz{5%foo}", U),
    ("timer with a text value", "~zz{some%min}", U),
];

/// whole-block constructs: (name, blocks before, the offending line(s), blocks after, bits)
const BLOCKS: &[(&str, &str, &str, &str, u32)] = &[
    ("bad mode value", "", ">> [mode]: nonsense", "\nstep @a{1}\n", MODES),
    ("bad define value", "first @a\n\n", ">> [define]: x y", "\n\nlast\n", MODES),
    ("bad duplicate value", "", ">> [duplicate]: maybe", "\nstep\n", MODES),
    ("bad mode value after a front matter", "---\ntitle: T\n---\n\nfirst step\n\n", ">> [mode]: nonsense", "\nstep @a{1}\n", MODES),
    ("bad mode value right after a step line, after a front matter", "---\ntitle: T\n---\nfirst step\n", ">> [mode]: nonsense", "\nstep @a{1}\n", MODES),
    ("bad duplicate value right after a step line", "a step\n", ">> [duplicate]: maybe", "\nstep\n", MODES),
    ("bad mode value right after a two-line step", "a step\nover two lines\n", ">> [mode]: nonsense", "\nstep\n", MODES),
    ("empty metadata key", "", ">> : value", "\nstep\n", 0),
    ("empty metadata key after a step", "a step\n\n", ">>: v", "\n", 0),
    ("malformed front matter", "", "---\nkey: [unclosed\n---", "\nstep @a{1}\n", 0),
    ("front matter that is not a mapping", "", "---\n- a\n- b\n---", "\nstep\n", 0),
    ("front matter with a bad indentation", "", "---\na: 1\n  b: 2\n c\n---", "\nstep\n", 0),
    ("reference with quantity to a components-mode definition with quantity", ">> [mode]: components\n@yy{1%kg}\n>> [mode]: all\nMix ", "@&yy{2%kg}", " well\n", MODES | M),
    ("reference with quantity to a components-mode definition with quantity that comes after a step definition of the same name", "Use @yy{1%kg}\n\n>> [mode]: components\n@yy{1%kg}\n>> [mode]: all\nMix ", "@&yy{2%kg}", " well\n", MODES | M),
    ("cookware reference with quantity to a components-mode definition with quantity", ">> [mode]: components\n#yy{1}\n>> [mode]: all\nMix ", "#&yy{2}", " well\n", MODES | M),
];

fn contexts() -> Vec<Recipe> {
    let t = |s| Item::Text(s);
    let c = |x| Item::Comp(x);
    vec![
        Recipe { blocks: vec![Block::Step(vec![t("Add "), c(Comp::new(Kind::Igr, "a").qty(Val::Int(1), Some("g"))), t(" and mix")])] },
        Recipe { blocks: vec![Block::Step(vec![c(Comp::new(Kind::Cw, "p"))]), Block::Step(vec![t("Then "), c(Comp::new(Kind::Tm, "").qty(Val::Int(5), Some("min"))), t(" wait")])] },
        Recipe { blocks: vec![Block::Section(Some("S")), Block::Step(vec![t("Use "), c(Comp::new(Kind::Igr, "b c").qty(Val::Frac(1, 2), None))])] },
        Recipe { blocks: vec![Block::Para(vec!["a note"]), Block::Step(vec![c(Comp::new(Kind::Igr, "c").qty(Val::Int(2), None)), t(" alone")]), Block::Step(vec![t("end")])] },
        Recipe { blocks: vec![Block::Para(vec!["intro"]), Block::Step(vec![t("first")]), Block::Para(vec!["a tip", "on two lines"]), Block::Step(vec![t("Knead the "), c(Comp::new(Kind::Igr, "d")), t(" well")])] },
    ]
}

fn touches(label: cooklang::Span, r: &std::ops::Range<usize>) -> bool {
    label.start() <= r.end && label.end() >= r.start
}

/// the general laws of the property on any result
fn result_laws(src: &str, r: &cooklang::RecipeResult) -> Option<(String, String)> {
    let has_error = r.report().iter().any(|d| d.severity == Severity::Error);
    if r.is_valid() != (r.has_output() && !has_error) {
        return Some(("validity is not `has output and no error`".into(), format!("{src:?}: is_valid {} has_output {} errors {has_error}", r.is_valid(), r.has_output())));
    }
    let parse_error = r.report().iter().any(|d| d.severity == Severity::Error && d.stage == Stage::Parse);
    if parse_error {
        if r.has_output() {
            return Some(("parse-stage error but output kept".into(), format!("{src:?}")));
        }
        if r.report().iter().any(|d| d.stage != Stage::Parse) {
            return Some(("parse-stage error but analysis diagnostics kept".into(), format!("{src:?}: {:?}", crate::oracles::diag_summary(r.report()))));
        }
    } else if !r.has_output() {
        return Some(("no parse-stage error but no output".into(), format!("{src:?}: {:?}", crate::oracles::diag_summary(r.report()))));
    }
    None
}

fn check_planted(name: &str, src: &str, range: &std::ops::Range<usize>, parser: &CooklangParser, bits: u32) -> Option<Violation> {
    let r = parser.parse(src);
    let case = json!({"kind": "planted", "construct": name, "input": src, "range": [range.start, range.end], "ext_bits": parser.extensions().bits(), "needs_bits": bits});
    if let Some((class, detail)) = result_laws(src, &r) {
        return Some(Violation::new(class, detail, case));
    }
    let errors: Vec<&cooklang::error::SourceDiag> = r.report().iter().filter(|d| d.severity == Severity::Error).collect();
    if errors.is_empty() {
        return Some(Violation::new(
            format!("invalid construct not diagnosed: {name}"),
            format!("{src:?} (extensions {:?}): the construct {:?} produced no error; diagnostics {:?}", parser.extensions(), &src[range.clone()], crate::oracles::diag_summary(r.report())),
            case,
        ));
    }
    let placed = errors.iter().any(|d| d.labels.first().map(|l| touches(l.0, range)).unwrap_or(false));
    if !placed {
        return Some(Violation::new(
            format!("diagnostic not placed on the offending construct: {name}"),
            format!("{src:?} (extensions {:?}): construct at {range:?} = {:?}; errors {:?}", parser.extensions(), &src[range.clone()], crate::oracles::diag_summary(r.report())),
            case,
        ));
    }
    None
}

fn ext_sets_of(entry_bits: u32) -> Vec<Extensions> {
    let bits = entry_bits & !PSEUDO;
    if entry_bits & WITHOUT_INTERMEDIATE != 0 {
        let inter_only = Extensions::INTERMEDIATE_PREPARATIONS.bits() & !Extensions::COMPONENT_MODIFIERS.bits();
        let mut v = vec![Extensions::from_bits(bits).expect("bits")];
        if let Some(x) = Extensions::from_bits(Extensions::all().bits() & !inter_only) {
            v.push(x);
        }
        return v;
    }
    ext_sets(bits)
}

fn ext_sets(bits: u32) -> Vec<Extensions> {
    let mut v = vec![Extensions::all()];
    let minimal = Extensions::from_bits(bits).expect("bits");
    if minimal != Extensions::all() {
        v.push(minimal);
    }
    // the needed flags plus everything unrelated that is compatible
    let compat = Extensions::COMPAT.bits() | bits;
    if let Some(c) = Extensions::from_bits(compat) {
        if !v.contains(&c) {
            v.push(c);
        }
    }
    v
}

pub fn replay(case: &J) -> Vec<Violation> {
    if case["kind"] == "planted" {
        let src = case["input"].as_str().unwrap_or("");
        let range = case["range"][0].as_u64().unwrap_or(0) as usize..case["range"][1].as_u64().unwrap_or(0) as usize;
        let ext = Extensions::from_bits(case["ext_bits"].as_u64().unwrap_or(0) as u32).unwrap_or(Extensions::all());
        let parser = CooklangParser::new(ext, Converter::bundled());
        let name: &'static str = Box::leak(case["construct"].as_str().unwrap_or("").to_string().into_boxed_str());
        return check_planted(name, src, &range, &parser, case["needs_bits"].as_u64().unwrap_or(0) as u32).into_iter().collect();
    }
    crate::c01::replay(case, What::Diagnostics)
}

pub fn run(tier: Tier) {
    let c = ctx();
    c.set_rule("soundness: every well-formed model recipe x spelling of the C01 space (both configurations) has no error and no warning other than one deprecation notice whose labels lie on `>>` lines, and is valid; completeness / placement: a catalogue of invalid constructs (one per construct the property lists, 48 in-step and 10 block-level) planted at every item slot of every step of 5 well-formed contexts, in every spelling with <= d deviations, under every extension set that enables the check (all, the minimal set, the minimal set + COMPAT): an Error diagnostic whose first label touches the construct's byte range must exist; on every result: valid <=> output and no error, parse-stage error => no output and only parse-stage diagnostics, otherwise output; non-trivial = well-formed recipes / planted constructs; distinct = distinct sources");
    let plan = match tier {
        Tier::Quick => Plan { l1_dev: 1, l2_dev: 0, l2_len: 2, l3_dev: 0, l3_len: 3, all_alt: true },
        Tier::Thorough => Plan { l1_dev: 1, l2_dev: 1, l2_len: 3, l3_dev: 1, l3_len: 4, all_alt: true },
    };
    explore(What::Diagnostics, &plan);
    if c.has_violations() {
        return;
    }
    // planted constructs
    let ctxs = Arc::new(contexts());
    // slots: (context, block index, position in the step)
    let mut slots = Vec::new();
    for (ci, r) in ctxs.iter().enumerate() {
        for (bi, b) in r.blocks.iter().enumerate() {
            if let Block::Step(items) = b {
                for pos in 0..=items.len() {
                    slots.push((ci, bi, pos));
                }
            }
        }
    }
    let slots = Arc::new(slots);
    let dev = tier.pick(1, 2);
    let total = INLINE.len() as u64 * slots.len() as u64;
    let parsers: Arc<Vec<Vec<CooklangParser>>> = Arc::new(INLINE.iter().map(|e| ext_sets_of(e.2).into_iter().map(|x| CooklangParser::new(x, Converter::bundled())).collect()).collect());
    let (sl, cx) = (slots.clone(), ctxs.clone());
    let ns = slots.len() as u64;
    sweep(&format!("C07 planted constructs: {} constructs x {} slots x spellings with <= {dev} deviations x enabling extension sets", INLINE.len(), slots.len()), total, move |i| json!({"kind": "planted-model", "construct": INLINE[(i / ns) as usize].0, "slot": format!("{:?}", sl[(i % ns) as usize])}), |idx, local| {
        let (name, raw, bits) = INLINE[(idx / ns) as usize];
        let (ci, bi, pos) = slots[(idx % ns) as usize];
        let mut r = cx[ci].clone();
        if bits & PSEUDO != 0 {
            // steps before this block in the same section
            let mut earlier = 0;
            for b in &r.blocks[..bi] {
                match b {
                    Block::Section(_) => earlier = 0,
                    Block::Step(_) => earlier += 1,
                    _ => {}
                }
            }
            let limit = if bits & NEEDS_NO_EARLIER_STEP != 0 { 0 } else { 1 };
            if earlier > limit {
                local.outcome("construct is valid in this context (skipped)");
                return vec![];
            }
        }
        let bits = bits & !PSEUDO;
        if let Block::Step(items) = &mut r.blocks[bi] {
            items.splice(pos..pos, [Item::Text(" "), Item::Raw(raw), Item::Text(" ")]);
        }
        let mut out = Vec::new();
        let cfg = Config { extended: false };
        for_each_spelling(&r, cfg, dev, false, &mut |p, _| {
            let Some((_, _, range)) = p.items.iter().find(|(b, i, _)| *b == bi && *i == pos + 1) else { return true };
            for parser in &parsers[(idx / ns) as usize] {
                local.evaluations += 1;
                if let Some(v) = check_planted(name, &p.src, range, parser, bits) {
                    out.push(v);
                    return false;
                }
            }
            true
        });
        local.nontrivial += 1;
        if idx % 131 == 5 {
            let mut ch = Chooser::new(Mode::Prefix(vec![]));
            c.sample(json!({"construct": name, "source": print(&r, cfg, &mut ch).src}));
        }
        out
    });
    if c.has_violations() {
        return;
    }
    // block-level constructs
    let nb = BLOCKS.len() as u64;
    sweep("C07 block-level constructs x line-ending and separator variants x enabling extension sets", nb, |i| json!({"kind": "block", "construct": BLOCKS[i as usize].0}), |idx, local| {
        let (name, before, bad, after, bits) = BLOCKS[idx as usize];
        let mut out = Vec::new();
        for crlf in [false, true] {
            for extra_blank in [false, true] {
                let mut src = format!("{before}{bad}{after}");
                let mut start = before.len();
                if extra_blank && before.is_empty() && !bad.starts_with("---") {
                    src = format!("\n{src}");
                    start += 1;
                }
                let mut range = start..start + bad.len();
                if crlf {
                    let nl_before = src[..range.start].matches('\n').count();
                    let nl_in = src[range.clone()].matches('\n').count();
                    src = src.replace('\n', "\r\n");
                    range = range.start + nl_before..range.end + nl_before + nl_in;
                }
                for ext in ext_sets(bits) {
                    let parser = CooklangParser::new(ext, Converter::bundled());
                    local.evaluations += 1;
                    if let Some(v) = check_planted(name, &src, &range, &parser, bits) {
                        out.push(v);
                        return out;
                    }
                    // the metadata-only entry point reads the same `>>` lines: a bad one must be diagnosed there too
                    // (with a front matter the metadata-only parse does not read the body at all)
                    if bad.starts_with(">>") && !before.starts_with("---") {
                        let m = parser.parse_metadata(&src);
                        let placed = m.report().iter().any(|d| d.severity == Severity::Error && d.labels.first().map(|l| touches(l.0, &range)).unwrap_or(false));
                        if !placed || m.is_valid() {
                            out.push(Violation::new(
                                format!("invalid construct not diagnosed by parse_metadata: {name}"),
                                format!("{src:?} (extensions {ext:?}): errors {:?}, valid {}", crate::oracles::diag_summary(m.report()), m.is_valid()),
                                json!({"kind": "block", "construct": name}),
                            ));
                            return out;
                        }
                    }
                }
            }
        }
        local.nontrivial += 1;
        out
    });
    // well-formed arrangements that are longer than the model layers reach: several definitions of one name
    // made in different modes, then references with quantities
    const WELL_FORMED: [&str; 4] = [
        ">> [mode]: components\n@yy{500%g}\n>> [mode]: all\nAdd @yy{100%g}\n\nthen @&yy{50%g}\n",
        ">> [mode]: components\n#yy{1}\n>> [mode]: all\nTake #yy{2}\n\nthen #&yy{1}\n",
        "Add @yy{100%g}\n\nthen @yy{200%g} and @&yy{50%g}\n",
        ">> [duplicate]: ref\nAdd @yy{100%g}\n\nthen @+yy{200%g} and @yy{50%g}\n",
    ];
    sweep("C07 longer well-formed arrangements", WELL_FORMED.len() as u64, |i| json!({"kind": "well-formed", "input": WELL_FORMED[i as usize]}), |idx, local| {
        let src = WELL_FORMED[idx as usize];
        local.evaluations += 1;
        local.nontrivial += 1;
        let parser = CooklangParser::new(Extensions::all(), Converter::bundled());
        let r = parser.parse(src);
        let bad: Vec<String> = r.report().iter().filter(|d| d.severity == Severity::Error).map(|d| d.message.to_string()).collect();
        if !bad.is_empty() || !r.is_valid() {
            return vec![Violation::new("error diagnostic for a well-formed recipe", format!("{src:?} (extended): {bad:?}"), json!({"kind": "well-formed", "input": src}))];
        }
        vec![]
    });
    // the laws on every token string (cheap, bounded-exhaustive)
    let two = Arc::new(crate::strings::configs(&[Extensions::empty(), Extensions::all()], &[crate::strings::Conv::Bundled]));
    crate::e1::string_sweep("C07 validity laws", &crate::strings::a_tok(), 0, tier.pick(3, 4), two, None, |cfg, s| {
        let r = cfg.parser.parse(s);
        match result_laws(s, &r) {
            Some((class, detail)) => (vec![Violation::new(class, detail, crate::oracles::case_json(s, cfg))], true, 0),
            None => (vec![], !r.report().is_empty(), fx_hash_str(&format!("{:?}", crate::oracles::diag_summary(r.report())))),
        }
    });
    c.assume("diagnostics are identified by severity, stage and label position only, never by message text");
}
