//! C08: scaling multiplies exactly the scalable amounts and nothing else

use crate::common::*;
use cooklang::quantity::{Number, Value};
use cooklang::scale::ScaleOutcome;
use cooklang::{Converter, CooklangParser, Extensions, ScaledRecipe};
use serde_json::{json, Value as J};
use std::sync::Arc;

#[derive(Clone, Debug)]
struct QSpec {
    /// value as written
    text: &'static str,
    /// the value default scaling must return
    value: Value,
    numeric: bool,
}

fn n(x: f64) -> Number {
    Number::Regular(x)
}
fn fr(whole: u32, num: u32, den: u32) -> Number {
    Number::Fraction { whole, num, den, err: 0.0 }
}

fn values() -> Vec<QSpec> {
    let q = |text, value: Value| QSpec { text, numeric: !matches!(value, Value::Text(_)), value };
    vec![
        q("1", Value::Number(n(1.0))),
        q("3", Value::Number(n(3.0))),
        q("0.5", Value::Number(n(0.5))),
        q("1.5", Value::Number(n(1.5))),
        q("1/2", Value::Number(fr(0, 1, 2))),
        q("1 1/2", Value::Number(fr(1, 1, 2))),
        q("7 1/8", Value::Number(fr(7, 1, 8))),
        q("2-3", Value::Range { start: n(2.0), end: n(3.0) }),
        q("1/3-2/3", Value::Range { start: fr(0, 1, 3), end: fr(0, 2, 3) }),
        q("0.25-1.75", Value::Range { start: n(0.25), end: n(1.75) }),
        q("1000", Value::Number(n(1000.0))),
        q("0.001", Value::Number(n(0.001))),
        q("454", Value::Number(n(454.0))),
        q("3000000000.5", Value::Number(n(3000000000.5))),
        // a range written larger-first, and a mixed number whose parts are large
        q("3-2", Value::Range { start: n(3.0), end: n(2.0) }),
        q("65536 1/65536", Value::Number(fr(65536, 1, 65536))),
        q("some", Value::Text("some".into())),
        q("a few big", Value::Text("a few big".into())),
    ]
}

const UNITS: [&str; 20] = ["", "g", "kg", "mg", "ml", "l", "cup", "tsp", "tbsp", "oz", "lb", "fl oz", "min", "h", "C", "F", "pinch", "bag", "cm", "in"];
const TIME_UNITS: [&str; 6] = ["s", "min", "h", "d", "minutes", "hour"];
const FACTORS: [f64; 9] = [0.5, 1.0, 2.0, 3.0, 1.0 / 3.0, 10.0, 0.001, 1e6, 7.3];

#[derive(Clone, Debug)]
struct CompSpec {
    /// 'i' ingredient, 'c' cookware, 't' timer
    kind: char,
    value: Option<usize>,
    unit: &'static str,
    lock: bool,
}

#[derive(Clone, Debug)]
struct RecipeSpec {
    comps: Vec<CompSpec>,
    /// 0 none, 1 `>> servings: 2`, 2 `>> servings: 2|4`, 3 front matter [2, 4], 4 front matter 4, 5 `>> servings: 3 people|6`
    servings: u8,
    reference: u8,
    inline: bool,
    /// units written after a blank instead of `%` (advanced-units spelling; only meaningful with that extension)
    space_sep: bool,
}

fn first_serving(s: u8) -> u32 {
    match s {
        0 => 1,
        1 | 2 | 3 => 2,
        4 | 6 | 8 | 10 => 4,
        7 | 9 => 6,
        _ => 3,
    }
}

fn source(r: &RecipeSpec, vals: &[QSpec]) -> String {
    let mut s = String::new();
    match r.servings {
        1 => s.push_str(">> servings: 2\n"),
        2 => s.push_str(">> servings: 2|4\n"),
        3 => s.push_str("---\nservings: [2, 4]\ntitle: T\n---\n"),
        4 => s.push_str("---\nservings: 4\n---\n"),
        5 => s.push_str(">> servings: 3 people|6\n"),
        6 => s.push_str(">> servings: 4|2\n"),
        7 => s.push_str("---\nservings: [6, 2, 4]\n---\n"),
        8 => s.push_str("---\ntitle: T\nserves: 4\n---\n"),
        9 => s.push_str(">> yield: 6 pieces\n"),
        // parsed with a caller-supplied metadata validator that switches the standard checks off for `title` only
        10 => s.push_str("---\ntitle: T\nnotes: x\nservings: 4\n---\n"),
        _ => {}
    }
    s.push_str("Add");
    for (k, c) in r.comps.iter().enumerate() {
        let marker = match c.kind {
            'i' => format!("@i{k}"),
            'c' => format!("#c{k}"),
            _ => format!("~t{k}"),
        };
        let body = match c.value {
            None => "{}".to_string(),
            Some(v) => {
                let lock = if c.lock { "=" } else { "" };
                if c.unit.is_empty() {
                    format!("{{{lock}{}}}", vals[v].text)
                } else if r.space_sep && vals[v].numeric {
                    format!("{{{lock}{} {}}}", vals[v].text, c.unit)
                } else {
                    format!("{{{lock}{}%{}}}", vals[v].text, c.unit)
                }
            }
        };
        s.push_str(&format!(" {marker}{body}"));
        if k == 0 && c.kind == 'i' {
            match r.reference {
                1 => s.push_str(" and @&i0{1%kg}"),
                2 => s.push_str(" and @&i0{2}"),
                3 => s.push_str(" and @&i0{some}"),
                4 => s.push_str(" and @&i0{=3%g}"),
                _ => {}
            }
        }
    }
    if r.inline {
        s.push_str(" then heat to 180 C for 5 min");
    }
    s.push_str(".\n");
    s
}

struct Env {
    vals: Vec<QSpec>,
    parsers: Vec<(&'static str, CooklangParser)>,
    si: std::collections::BTreeMap<String, (String, f64)>,
}

fn env() -> Env {
    let no_adv = Extensions::all() ^ Extensions::ADVANCED_UNITS;
    let parsers = vec![
        ("all extensions, bundled units", CooklangParser::new(Extensions::all(), Converter::bundled())),
        ("all but advanced units, bundled units", CooklangParser::new(no_adv, Converter::bundled())),
        ("all but advanced units, empty converter", CooklangParser::new(no_adv, Converter::empty())),
        ("canonical", CooklangParser::canonical()),
    ];
    let conv = Converter::bundled();
    let table = crate::c09::si_table();
    let mut si = std::collections::BTreeMap::new();
    for u in conv.all_units() {
        let keys: Vec<String> = u.names.iter().chain(&u.symbols).chain(&u.aliases).map(|s| s.to_string()).collect();
        if let Some((_, q, f, _)) = table.iter().find(|(k, q, _, _)| *q == u.physical_quantity && keys.iter().any(|x| x == k)) {
            for k in &keys {
                si.insert(k.clone(), (q.to_string(), *f));
            }
        }
    }
    Env { vals: values(), parsers, si }
}

fn parts(v: &Value) -> Option<(f64, f64)> {
    match v {
        Value::Number(n) => Some((n.value(), n.value())),
        Value::Range { start, end } => Some((start.value(), end.value())),
        Value::Text(_) => None,
    }
}

fn close(a: f64, b: f64, rel: f64) -> bool {
    (a - b).abs() <= rel * a.abs().max(b.abs()).max(1e-300)
}

/// is `after` (value, unit) the amount `k` x `before` (value, unit)?
fn amount_is(env: &Env, conv: &Converter, before: (&Value, Option<&str>), after: (&Value, Option<&str>), k: f64) -> Result<(), String> {
    let (Some((bl, bh)), Some((al, ah))) = (parts(before.0), parts(after.0)) else {
        // text: verbatim
        return if before.0 == after.0 && before.1 == after.1 { Ok(()) } else { Err(format!("text quantity changed: {:?} {:?} -> {:?} {:?}", before.0, before.1, after.0, after.1)) };
    };
    if matches!(before.0, Value::Range { .. }) != matches!(after.0, Value::Range { .. }) {
        return Err("a range became a number or vice versa".into());
    }
    let known_b = before.1.and_then(|u| conv.find_unit(u));
    match (before.1, known_b) {
        (None, _) | (Some(_), None) => {
            // no unit or a unit the converter does not know: unit text unchanged, number multiplied
            if before.1 != after.1 {
                return Err(format!("unit text changed: {:?} -> {:?}", before.1, after.1));
            }
            if !(close(al, bl * k, 1e-12) && close(ah, bh * k, 1e-12)) {
                return Err(format!("value {bl}..{bh} x {k} became {al}..{ah}"));
            }
            Ok(())
        }
        (Some(bu), Some(bunit)) => {
            let Some(aunit) = after.1.and_then(|u| conv.find_unit(u)) else { return Err(format!("unit {:?} became unknown unit {:?}", bu, after.1)) };
            if aunit.physical_quantity != bunit.physical_quantity {
                return Err(format!("unit {bu:?} became {:?}, another physical quantity", after.1));
            }
            if bunit.physical_quantity == cooklang::convert::PhysicalQuantity::Temperature {
                // offset scale: the number is multiplied in its own unit; compare after converting back affinely
                let back = |x: f64| ((x + aunit.difference) * aunit.ratio) / bunit.ratio - bunit.difference;
                let tol = 1e-9 * (273.15 + (bl * k).abs());
                if !((back(al) - bl * k).abs() <= tol && (back(ah) - bh * k).abs() <= tol) {
                    return Err(format!("temperature {bl}..{bh} {bu} x {k} became {al}..{ah} {:?}", after.1));
                }
                return Ok(());
            }
            // independent factors where available, the converter's own otherwise
            let fb = env.si.get(bu).map(|x| x.1).unwrap_or(bunit.ratio);
            let fa = after.1.and_then(|u| env.si.get(u)).map(|x| x.1).unwrap_or(aunit.ratio);
            if !(close(al * fa, bl * fb * k, 1e-6) && close(ah * fa, bh * fb * k, 1e-6)) {
                return Err(format!("{bl}..{bh} {bu} x {k} became {al}..{ah} {:?}: amounts {:e}..{:e} vs {:e}..{:e}", after.1, al * fa, ah * fa, bl * fb * k, bh * fb * k));
            }
            Ok(())
        }
    }
}

fn outcome_name(o: &ScaleOutcome) -> &'static str {
    match o {
        ScaleOutcome::Scaled => "Scaled",
        ScaleOutcome::Fixed => "Fixed",
        ScaleOutcome::NoQuantity => "NoQuantity",
        ScaleOutcome::Error(_) => "Error",
    }
}

fn rest_image(r: &ScaledRecipe) -> J {
    // everything that scaling must not touch
    let mut v = serde_json::to_value(r).unwrap_or(J::Null);
    for key in ["ingredients", "cookware", "timers"] {
        if let Some(a) = v.get_mut(key).and_then(|x| x.as_array_mut()) {
            for e in a {
                e["quantity"] = J::Null;
            }
        }
    }
    v["data"] = J::Null;
    v
}

fn check(env: &Env, pi: usize, spec: &RecipeSpec, local: &mut Local) -> Vec<Violation> {
    let (pname, parser) = &env.parsers[pi];
    let conv = parser.converter();
    let src = source(spec, &env.vals);
    let mut out = Vec::new();
    if spec.space_sep && !parser.extensions().contains(Extensions::ADVANCED_UNITS) {
        local.outcome("unit without `%` needs the advanced-units extension (skipped)");
        return out;
    }
    let parse_src = || -> cooklang::RecipeResult {
        if spec.servings == 10 {
            use cooklang::analysis::{CheckOptions, CheckResult};
            parser.parse_with_options(
                &src,
                cooklang::ParseOptions {
                    recipe_ref_check: None,
                    metadata_validator: Some(Box::new(|k: &serde_yaml::Value, _v: &serde_yaml::Value, o: &mut CheckOptions| {
                        match k.as_str() {
                            Some("title") => o.run_std_checks(false),
                            Some("notes") => o.include(false),
                            _ => {}
                        }
                        CheckResult::Ok
                    })),
                },
            )
        } else {
            parser.parse(&src)
        }
    };
    let base = parse_src();
    if !base.is_valid() {
        local.outcome("source not valid under this configuration (outside the property)");
        return out;
    }
    let case = |f: f64| json!({"kind": "scale", "source": src, "parser": pi, "factor": f});
    macro_rules! fail {
        ($f:expr, $class:expr, $($arg:tt)*) => {{
            out.push(Violation::new($class, format!("{src:?} ({pname}) x{}: {}", $f, format!($($arg)*)), case($f)));
            return out;
        }};
    }
    let reparse = || parse_src().into_output().expect("valid recipe has output");
    // default scaling: written values verbatim
    let d = reparse().default_scale();
    local.evaluations += 1;
    if !d.is_default_scaled() || d.scaled_data().is_some() {
        fail!(1.0, "default scaling reports scaled data", "is_default_scaled = {}", d.is_default_scaled());
    }
    let is_canonical = parser.extensions().is_empty();
    let (mut ii, mut ci, mut ti) = (0usize, 0usize, 0usize);
    // expected (kind, index in its table, spec)
    let mut expected: Vec<(char, usize, &CompSpec)> = Vec::new();
    for c in &spec.comps {
        match c.kind {
            'i' => {
                expected.push(('i', ii, c));
                ii += 1;
                if expected.len() == 1 && spec.reference != 0 {
                    ii += 1; // the reference follows the first ingredient
                }
            }
            'c' => {
                expected.push(('c', ci, c));
                ci += 1;
            }
            _ => {
                expected.push(('t', ti, c));
                ti += 1;
            }
        }
    }
    if d.ingredients.len() != ii || d.cookware.len() != ci || d.timers.len() != ti {
        // e.g. a lock spelled in canonical mode changes nothing about counts; anything else is a parser matter (C01)
        local.outcome("component counts differ from the generator's (outside this check)");
        return out;
    }
    for (kind, idx, c) in &expected {
        let (val, unit): (Option<&Value>, Option<&str>) = match kind {
            'i' => (d.ingredients[*idx].quantity.as_ref().map(|q| q.value()), d.ingredients[*idx].quantity.as_ref().and_then(|q| q.unit())),
            'c' => (d.cookware[*idx].quantity.as_ref(), None),
            _ => (d.timers[*idx].quantity.as_ref().map(|q| q.value()), d.timers[*idx].quantity.as_ref().and_then(|q| q.unit())),
        };
        match c.value {
            None => {
                if val.is_some() {
                    fail!(1.0, "default scaling invents a quantity", "component {kind}{idx}: {val:?}");
                }
            }
            Some(v) => {
                let want = &env.vals[v].value;
                // ranges need the extension; without it the text is kept: only compare when the parser read a number
                let Some(got) = val else { fail!(1.0, "default scaling drops a quantity", "component {kind}{idx}") };
                let comparable = !is_canonical || !matches!(want, Value::Range { .. });
                // representation included: a written fraction must stay a fraction
                if comparable && !matches!(got, Value::Text(_)) && format!("{got:?}") != format!("{want:?}") {
                    fail!(1.0, "default scaling does not return the written value", "component {kind}{idx}: written {:?}, returned {got:?}", env.vals[v].text);
                }
                if !matches!(got, Value::Text(_)) && *kind != 'c' && unit.unwrap_or("") != c.unit {
                    fail!(1.0, "default scaling does not return the written unit", "component {kind}{idx}: written {:?}, returned {unit:?}", c.unit);
                }
            }
        }
    }
    let d_rest = rest_image(&d);
    for f in FACTORS {
        local.evaluations += 1;
        let s = reparse().scale(f, conv);
        let Some(data) = s.scaled_data() else { fail!(f, "scaled recipe without scaled data", "") };
        if (data.target.factor() - f).abs() > 0.0 {
            fail!(f, "scale target differs from the requested factor", "{}", data.target.factor());
        }
        if data.ingredients.len() != s.ingredients.len() || data.cookware.len() != s.cookware.len() || data.timers.len() != s.timers.len() {
            fail!(f, "outcome vectors do not line up with the components", "{} / {} / {} outcomes for {} / {} / {} components", data.ingredients.len(), data.cookware.len(), data.timers.len(), s.ingredients.len(), s.cookware.len(), s.timers.len());
        }
        if rest_image(&s) != d_rest {
            fail!(f, "scaling changed something other than quantities", "default-scaled {d_rest} vs scaled {}", rest_image(&s));
        }
        // every ingredient (generated ones and the reference)
        for (i, (a, b)) in d.ingredients.iter().zip(&s.ingredients).enumerate() {
            // is this ingredient scalable? generator knowledge: numeric and not locked
            let gen = expected.iter().find(|(k, idx, _)| *k == 'i' && *idx == i).map(|(_, _, c)| *c);
            let (numeric, locked) = match gen {
                Some(c) => (c.value.map(|v| env.vals[v].numeric).unwrap_or(false), c.lock),
                None => match spec.reference {
                    1 | 2 => (true, false),
                    3 => (false, false),
                    _ => (true, true),
                },
            };
            match (&a.quantity, &b.quantity) {
                (None, None) => {
                    if outcome_name(&data.ingredients[i]) != "NoQuantity" {
                        fail!(f, "wrong scale outcome", "ingredient {i} has no quantity but outcome {:?}", data.ingredients[i]);
                    }
                }
                (Some(qa), Some(qb)) => {
                    let read_as_number = parts(qa.value()).is_some();
                    let scalable = numeric && !locked && read_as_number;
                    // a value the parser read as text (e.g. a range without the extension) is text
                    let k = if scalable { f } else { 1.0 };
                    if let Err(e) = amount_is(env, conv, (qa.value(), qa.unit()), (qb.value(), qb.unit()), k) {
                        fail!(f, if scalable { "scalable ingredient not multiplied by the factor" } else { "fixed ingredient quantity changed" }, "ingredient {i}: {e}");
                    }
                    let want = if scalable { "Scaled" } else { "Fixed" };
                    if outcome_name(&data.ingredients[i]) != want {
                        fail!(f, "wrong scale outcome", "ingredient {i} ({qa} -> {qb}): outcome {:?}, expected {want}", data.ingredients[i]);
                    }
                }
                _ => fail!(f, "scaling added or removed a quantity", "ingredient {i}"),
            }
        }
        for (i, (a, b)) in d.cookware.iter().zip(&s.cookware).enumerate() {
            if a.quantity != b.quantity {
                fail!(f, "cookware amount changed by scaling", "cookware {i}: {:?} -> {:?}", a.quantity, b.quantity);
            }
            let want = if a.quantity.is_some() { "Fixed" } else { "NoQuantity" };
            if outcome_name(&data.cookware[i]) != want {
                fail!(f, "wrong scale outcome", "cookware {i}: outcome {:?}, expected {want}", data.cookware[i]);
            }
        }
        for (i, (a, b)) in d.timers.iter().zip(&s.timers).enumerate() {
            match (&a.quantity, &b.quantity) {
                (None, None) => {
                    if outcome_name(&data.timers[i]) != "NoQuantity" {
                        fail!(f, "wrong scale outcome", "timer {i}");
                    }
                }
                (Some(qa), Some(qb)) => {
                    if let Err(e) = amount_is(env, conv, (qa.value(), qa.unit()), (qb.value(), qb.unit()), 1.0) {
                        fail!(f, "timer changed by scaling", "timer {i}: {e}");
                    }
                    if outcome_name(&data.timers[i]) != "Fixed" {
                        fail!(f, "wrong scale outcome", "timer {i}: outcome {:?}, expected Fixed", data.timers[i]);
                    }
                }
                _ => fail!(f, "scaling added or removed a quantity", "timer {i}"),
            }
        }
    }
    // servings
    let first = first_serving(spec.servings);
    let declared = reparse().servings().map(|s| s.to_vec());
    let want_declared: Option<Vec<u32>> = match spec.servings {
        0 => None,
        1 => Some(vec![2]),
        2 | 3 => Some(vec![2, 4]),
        4 | 10 => Some(vec![4]),
        6 => Some(vec![4, 2]),
        7 => Some(vec![6, 2, 4]),
        8 => Some(vec![4]),
        9 => Some(vec![6]),
        _ => Some(vec![3, 6]),
    };
    if declared != want_declared {
        fail!(1.0, "declared servings not picked up", "servings() = {declared:?}, written {want_declared:?}");
    }
    for target in [1u32, 3, 6] {
        local.evaluations += 1;
        let a = reparse().scale_to_servings(target, conv);
        let b = reparse().scale(target as f64 / first as f64, conv);
        let (ja, jb) = (serde_json::to_string(&a).unwrap_or_default(), serde_json::to_string(&b).unwrap_or_default());
        if ja != jb {
            fail!(target as f64, "scale_to_servings differs from scaling by n / first servings", "to {target} servings (first declared {first}): {ja} vs {jb}");
        }
    }
    local.nontrivial += 1;
    out
}

fn specs(tier: Tier, vals: &[QSpec]) -> Vec<RecipeSpec> {
    let mut v = Vec::new();
    let nv = vals.len();
    // single ingredient: full cross product value x unit x lock, with each kind of reference
    for val in 0..nv {
        for unit in UNITS {
            for lock in [false, true] {
                for reference in 0..=4u8 {
                    for servings in [0u8, 2, 6] {
                        v.push(RecipeSpec { comps: vec![CompSpec { kind: 'i', value: Some(val), unit, lock }], servings, reference, inline: false, space_sep: false });
                    }
                }
            }
        }
    }
    // no quantity
    for servings in 0..=10u8 {
        v.push(RecipeSpec { comps: vec![CompSpec { kind: 'i', value: None, unit: "", lock: false }], servings, reference: 0, inline: true, space_sep: false });
    }
    // cookware and timers
    for val in 0..nv {
        for lock in [false, true] {
            v.push(RecipeSpec { comps: vec![CompSpec { kind: 'c', value: Some(val), unit: "", lock }], servings: 2, reference: 0, inline: false, space_sep: false });
            for unit in TIME_UNITS {
                v.push(RecipeSpec { comps: vec![CompSpec { kind: 't', value: Some(val), unit, lock }], servings: 3, reference: 0, inline: false, space_sep: false });
            }
        }
    }
    // combined: ingredient + cookware + timer + inline quantities, every servings declaration
    let combo_units: &[&str] = tier.pick(&["", "kg", "cup", "bag"][..], &UNITS[..]);
    for val in 0..nv {
        for unit in combo_units {
            for lock in [false, true] {
                for servings in 0..=10u8 {
                    for val2 in [0usize, 7, 13] {
                        v.push(RecipeSpec {
                            comps: vec![
                                CompSpec { kind: 'i', value: Some(val), unit, lock },
                                CompSpec { kind: 'c', value: Some(val2), unit: "", lock: false },
                                CompSpec { kind: 't', value: Some(val2.min(11)), unit: "min", lock: false },
                                CompSpec { kind: 'i', value: Some(val2), unit: "g", lock: !lock },
                                CompSpec { kind: 'c', value: None, unit: "", lock: false },
                            ],
                            servings,
                            reference: (val % 5) as u8,
                            inline: true,
                            space_sep: false,
                        });
                    }
                }
            }
        }
    }
    // the same specs with the unit after a blank instead of `%`, wherever that changes the source
    let spaced: Vec<RecipeSpec> = v
        .iter()
        .filter(|r| r.comps.iter().any(|c| !c.unit.is_empty() && c.value.map(|i| vals[i].numeric).unwrap_or(false)))
        .map(|r| RecipeSpec { space_sep: true, ..r.clone() })
        .collect();
    v.extend(spaced);
    v
}

pub fn replay(case: &J) -> Vec<Violation> {
    // find the spec with this source
    let e = env();
    let all = specs(Tier::Thorough, &e.vals);
    let src = case["source"].as_str().unwrap_or("");
    let pi = case["parser"].as_u64().unwrap_or(0) as usize;
    let mut local = Local::for_replay();
    for s in &all {
        if source(s, &e.vals) == src {
            return check(&e, pi, s, &mut local);
        }
    }
    vec![]
}

pub fn run(tier: Tier) {
    let c = ctx();
    c.set_rule("complete cross product: 15 written values (integers, decimals, fractions, mixed numbers, ranges, fraction ranges, text) x 20 units (none, metric, imperial, time, temperature, unknown) x lock x unit separator (`%`; a blank under the advanced-units extension) x component kind (ingredient with each kind of reference, cookware, timer) x declared servings (none, `2`, `2|4`, `3 people|6`, front matter list and number) x 4 configurations (extended, without advanced units, empty converter, canonical) x 9 factors (1/2, 1, 2, 3, 1/3, 10, 1e-3, 1e6, 7.3) + 3 serving targets; oracle: default scaling returns the written value and unit; for each factor the amount (value incl. fraction error x unit factor from an independent table) of numeric unlocked ingredient quantities is f x the written amount, everything else (text, locked, cookware, timers, inline quantities, names, relations, steps, metadata) is unchanged; outcome vectors line up and name the case; scale_to_servings(n) == scale(n / first); non-trivial = valid recipe specs; distinct = distinct (source, configuration)");
    let e = Arc::new(env());
    let all = Arc::new(specs(tier, &e.vals));
    let np = e.parsers.len() as u64;
    let total = all.len() as u64 * np;
    c.part(json!({"values": e.vals.iter().map(|v| v.text).collect::<Vec<_>>(), "units": UNITS, "factors": FACTORS, "configurations": e.parsers.iter().map(|p| p.0).collect::<Vec<_>>(), "recipe_specs": all.len()}));
    let (e2, a2) = (e.clone(), all.clone());
    sweep("C08 recipe specs x configurations, each x 9 factors + default scaling + 3 serving targets", total, move |i| json!({"kind": "scale", "source": source(&a2[(i / np) as usize], &e2.vals), "parser": i % np}), |idx, local| {
        let spec = &all[(idx / np) as usize];
        let v = check(&e, (idx % np) as usize, spec, local);
        if idx % (total / 5) == 101 {
            c.sample(json!({"source": source(spec, &e.vals), "configuration": e.parsers[(idx % np) as usize].0}));
        }
        v
    });
    c.states.store(total, std::sync::atomic::Ordering::Relaxed);
    c.transitions.store(total * 13, std::sync::atomic::Ordering::Relaxed);
    c.traces_validated.store(c.evaluations.load(std::sync::atomic::Ordering::Relaxed), std::sync::atomic::Ordering::Relaxed);
    c.note("model = the generator's knowledge of what was written (value, unit, lock, kind); states = (recipe spec, configuration) pairs, transitions = scale operations applied to them; every model prediction is compared with the real scale / default_scale / scale_to_servings");
    c.assume("amounts of known units are compared through an independent SI table (1e-6, units.toml is rounded); unknown units and unit-less values must be multiplied exactly (1e-12); temperatures are multiplied in their own unit");
}
