#!/bin/bash
# usage: tools/run_all.sh <quick|thorough>   runs every check, prints one line each
tier=${1:-quick}
for id in C01 C02 C03 C04 C05 C06 C07 C08 C09 C10 C11 C12 C13 C14 C15 C16 C17 C18 C19; do
  s=$(date +%s.%N); out=$(/verif/check $id $tier 2>&1); code=$?; e=$(date +%s.%N)
  printf "%s exit=%d %.1fs %s\n" $id $code $(echo "$e - $s" | bc) "$(echo "$out" | grep -E "^$id (quick|thorough)" | cut -c1-160)"
  [ $code -ne 0 ] && echo "$out" | grep -E "VIOLATION|violation class|engine:|check:" | cut -c1-300 | head -5
done
