//! C15: recipes survive serialization

use crate::common::*;
use crate::e1::string_sweep;
use crate::oracles::case_json;
use crate::strings::*;
use cooklang::convert::System;
use cooklang::{ScalableRecipe, ScaledRecipe};
use serde_json::json;
use std::sync::Arc;

fn finite(j: &serde_json::Value) -> bool {
    // a non-finite f64 is written as null where a number is expected; such recipes are outside the property
    match j {
        serde_json::Value::Object(m) => {
            if let (Some(t), Some(v)) = (m.get("type"), m.get("value")) {
                if t == "regular" && v.is_null() {
                    return false;
                }
            }
            m.values().all(finite)
        }
        serde_json::Value::Array(a) => a.iter().all(finite),
        _ => true,
    }
}

/// YAML that JSON can carry: string keys only, no tags, finite numbers
fn yaml_json_safe(v: &serde_yaml::Value) -> bool {
    use serde_yaml::Value as Y;
    match v {
        Y::Null | Y::Bool(_) | Y::String(_) => true,
        Y::Number(n) => n.as_f64().map(|f| f.is_finite()).unwrap_or(true),
        Y::Sequence(s) => s.iter().all(yaml_json_safe),
        Y::Mapping(m) => m.iter().all(|(k, v)| k.is_string() && yaml_json_safe(v)),
        Y::Tagged(_) => false,
    }
}

fn scaled_fields_equal(a: &ScaledRecipe, b: &ScaledRecipe) -> Result<(), String> {
    if a.metadata != b.metadata {
        return Err("metadata differs".into());
    }
    if a.sections != b.sections {
        return Err("sections differ".into());
    }
    if a.ingredients != b.ingredients {
        return Err(format!("ingredients differ: {:?} vs {:?}", a.ingredients, b.ingredients));
    }
    if a.cookware != b.cookware {
        return Err("cookware differs".into());
    }
    if a.timers != b.timers {
        return Err("timers differ".into());
    }
    if a.inline_quantities != b.inline_quantities {
        return Err("inline quantities differ".into());
    }
    if a.is_default_scaled() != b.is_default_scaled() {
        return Err("scaled state differs".into());
    }
    match (a.scaled_data(), b.scaled_data()) {
        (None, None) => {}
        (Some(x), Some(y)) => {
            if x.target.factor() != y.target.factor() || format!("{:?}{:?}{:?}", x.ingredients, x.cookware, x.timers) != format!("{:?}{:?}{:?}", y.ingredients, y.cookware, y.timers) {
                return Err(format!("scaled data differs: {x:?} vs {y:?}"));
            }
        }
        _ => return Err("scaled data presence differs".into()),
    }
    Ok(())
}

pub fn check(cfg: &Config, s: &str) -> (Vec<Violation>, bool, u64) {
    let r = cfg.parser.parse(s);
    let Some(o) = r.output() else { return (vec![], false, 0) };
    let case = case_json(s, cfg);
    let mut out = Vec::new();
    macro_rules! fail {
        ($class:expr, $($arg:tt)*) => {{
            out.push(Violation::new($class, format!("{s:?}: {}", format!($($arg)*)), case.clone()));
            return (out, true, 0);
        }};
    }
    if !o.metadata.map.iter().all(|(k, v)| k.is_string() && yaml_json_safe(v)) {
        return (vec![], false, 0);
    }
    let j = match serde_json::to_string(o) {
        Ok(j) => j,
        Err(e) => {
            // YAML front matter can hold things JSON cannot (non-string keys, tags): outside the property
            if e.to_string().contains("key must be a string") {
                return (vec![], false, 0);
            }
            fail!("recipe does not serialize", "{e}")
        }
    };
    let jv: serde_json::Value = serde_json::from_str(&j).unwrap_or(serde_json::Value::Null);
    if !finite(&jv) || j.contains("\"!") {
        return (vec![], false, 0);
    }
    let back: ScalableRecipe = match serde_json::from_str(&j) {
        Ok(b) => b,
        Err(e) => fail!("serialized recipe does not deserialize", "{e}; json {j}"),
    };
    if &back != o {
        fail!("deserialized recipe differs", "json {j}; original {o:?}; deserialized {back:?}");
    }
    match serde_json::to_string(&back) {
        Ok(j2) if j2 == j => {}
        Ok(j2) => fail!("re-serialization is not byte-identical", "{j} vs {j2}"),
        Err(e) => fail!("deserialized recipe does not serialize", "{e}"),
    }
    if back.servings() != o.servings() {
        fail!("servings lost in serialization", "{:?} vs {:?}", o.servings(), back.servings());
    }
    let conv = cfg.parser.converter();
    let nontrivial = !o.ingredients.is_empty() || !o.cookware.is_empty() || !o.timers.is_empty() || !o.metadata.map.is_empty() || o.sections.len() > 1;
    let h = fx_hash_str(&j);
    for (fi, f) in [None, Some(0.5), Some(3.0), Some(1.0 / 3.0), Some(0.0), Some(1e-310)].into_iter().enumerate() {
        for sys in [None, Some(System::Metric), Some(System::Imperial)] {
            let Some(rec) = cfg.parser.parse(s).into_output() else { continue };
            let mut sc = match f {
                None => rec.default_scale(),
                Some(f) => rec.scale(f, conv),
            };
            if let Some(sys) = sys {
                let _ = sc.convert(sys, conv);
            }
            let what = format!("scaled ({f:?}) and converted ({sys:?})");
            let j = match serde_json::to_string(&sc) {
                Ok(j) => j,
                Err(e) => fail!("scaled recipe does not serialize", "{what}: {e}"),
            };
            let jv: serde_json::Value = serde_json::from_str(&j).unwrap_or(serde_json::Value::Null);
            if !finite(&jv) {
                continue;
            }
            let back: ScaledRecipe = match serde_json::from_str(&j) {
                Ok(b) => b,
                Err(e) => fail!("serialized scaled recipe does not deserialize", "{what}: {e}; json {j}"),
            };
            if let Err(e) = scaled_fields_equal(&sc, &back) {
                fail!("deserialized scaled recipe differs", "{what}: {e}; json {j}");
            }
            match serde_json::to_string(&back) {
                Ok(j2) if j2 == j => {}
                Ok(j2) => fail!("re-serialization of the scaled recipe is not byte-identical", "{what}: {j} vs {j2}"),
                Err(e) => fail!("deserialized scaled recipe does not serialize", "{what}: {e}"),
            }
            let _ = fi;
        }
    }
    (out, nontrivial, h)
}

pub fn run(tier: Tier) {
    let c = ctx();
    c.set_rule("every recipe parsed from: all sequences up to n of the component alphabet (every relation kind, modifier, intermediate reference, mode), the cross product of written values x units (fractions, ranges, text), all sequences up to 3 of a front-matter alphabet (strings, integers, floats, booleans, null, sequences, nested mappings), the corpus and its single edits; each as ScalableRecipe and as ScaledRecipe for {default, x1/2, x3, x1/3} x {unconverted, metric, imperial}: to_string -> from_str gives an equal value (== for ScalableRecipe, field by field for ScaledRecipe) and serializing that again gives identical bytes; non-trivial = recipe has a component, metadata or several sections; distinct = distinct JSON images");
    c.assume("restricted to finite numbers and to YAML front matter with string keys and no tags (JSON cannot carry the others); serde_json is built with float_roundtrip so that text -> f64 is exact");
    let two = Arc::new(configs(&[cooklang::Extensions::all(), cooklang::Extensions::empty()], &[Conv::Bundled]));
    let ext = Arc::new(configs(&[cooklang::Extensions::all()], &[Conv::Bundled, Conv::Empty]));
    let comp = a_comp();
    c.part(json!({"alphabet": comp.name, "symbols": comp.syms}));
    string_sweep("C15 components", &comp, 0, tier.pick(2, 3), two.clone(), None, check);
    if c.has_violations() {
        return;
    }
    // written values x units
    let qa = Alphabet::new(
        "A_quantity",
        &["@a{", "#c{", "~t{", "}", "=", "1", "1.5", "1/2", "1 1/2", "2-3", "1/3-2/3", "some", "%", "kg", "cup", "tsp", "min", "bag", " ", "@&a{", "0.001", "1000000", "()", "(n)"],
    );
    c.part(json!({"alphabet": qa.name, "symbols": qa.syms}));
    string_sweep("C15 quantities", &qa, 0, tier.pick(4, 5), ext.clone(), None, check);
    if c.has_violations() {
        return;
    }
    // metadata shapes
    let ya = Alphabet::new(
        "A_yaml",
        &[
            "title: T\n", "n: 3\n", "f: 2.5\n", "b: true\n", "z: ~\n", "l: [1, a, 2.5]\n", "m:\n  x: 1\n  y: [a, {k: v}]\n", "servings: [2, 4]\n", "servings: 3\n", "time:\n  prep: 10 min\n  cook: 1h\n",
            "tags: [a, b]\n", "e: 1e3\n", "neg: -0.75\n", "big: 18446744073709551615\n", "s: \"quoted: yes\"\n", "u: é😀\n", "nested:\n  a:\n    b:\n      c: [[], {}]\n", "author: {name: Mom, url: \"https://a.b\"}\n",
        ],
    );
    c.part(json!({"alphabet": ya.name, "symbols": ya.syms}));
    string_sweep("C15 front matter", &ya, 0, tier.pick(2, 3), ext.clone(), Some(("---\n", "---\nStep with @a{1%kg} and ~{5%min}.\n")), check);
    if c.has_violations() {
        return;
    }
    crate::corpus::edits_sweep("C15 corpus edits", tier, ext, check);
    let st = c.evaluations.load(std::sync::atomic::Ordering::Relaxed);
    c.states.store(st, std::sync::atomic::Ordering::Relaxed);
    c.transitions.store(st * 13, std::sync::atomic::Ordering::Relaxed);
    c.traces_validated.store(st * 13, std::sync::atomic::Ordering::Relaxed);
    c.note("states = parsed recipes (one per input and configuration); transitions = the 13 serialize/deserialize round trips applied to each (1 scalable + 6 scalings, incl. the factors 0 and 1e-310, x 3 conversions); all executed on the real serde implementations");
}
