//! Engine E1: bounded-exhaustive string sweeps (C03, C04, C05, C06, C14, C17-CRLF)

use crate::common::*;
use crate::oracles::*;
use crate::strings::*;
use serde_json::{json, Value as J};
use std::sync::Arc;

/// Explore every canonical symbol sequence of length `lo..=hi` under every
/// configuration. `eval` returns (violations, nontrivial, observation hash).
pub fn string_sweep(
    name: &str,
    alpha: &Alphabet,
    lo: u32,
    hi: u32,
    cfgs: Arc<Vec<Config>>,
    wrap: Option<(&'static str, &'static str)>,
    eval: impl Fn(&Config, &str) -> (Vec<Violation>, bool, u64) + Sync,
) {
    let c = ctx();
    let alpha = Arc::new(alpha.clone());
    let below: u64 = if lo == 0 { 0 } else { alpha.count_upto(lo - 1) };
    let total = alpha.count_upto(hi) - below;
    let (pre, post) = wrap.unwrap_or(("", ""));
    let describe = {
        let alpha = alpha.clone();
        let cfgs = cfgs.clone();
        move |idx: u64| {
            let mut seq = Vec::new();
            let mut s = String::new();
            alpha.decode_upto(idx + below, hi, &mut seq);
            alpha.concat(&seq, &mut s);
            json!({"input": format!("{pre}{s}{post}"), "configs": cfgs.iter().map(|c| c.describe()).collect::<Vec<_>>()})
        }
    };
    let full_name = format!(
        "{name}: {} strings of {}..={} symbols x {} configurations",
        alpha.name,
        lo,
        hi,
        cfgs.len()
    );
    let sample_every = (total / 4).max(1);
    let next_sample = std::sync::atomic::AtomicU64::new(sample_every / 3);
    sweep(&full_name, total, describe, |idx, local| {
        let mut seq = Vec::with_capacity(hi as usize);
        let mut s = String::new();
        alpha.decode_upto(idx + below, hi, &mut seq);
        alpha.concat(&seq, &mut s);
        if !alpha.is_canonical(&seq, &s) {
            local.outcome("skipped: same string as another symbol sequence");
            return vec![];
        }
        let input = if wrap.is_some() { format!("{pre}{s}{post}") } else { s };
        let mut out = Vec::new();
        let mut any_nontrivial = false;
        for cfg in cfgs.iter() {
            local.evaluations += 1;
            let (v, nontrivial, h) = eval(cfg, &input);
            if nontrivial {
                any_nontrivial = true;
                local.observe(h ^ (cfg.ext.bits() as u64).wrapping_mul(0x9e3779b97f4a7c15) ^ ((cfg.conv as u64) << 60));
            }
            out.extend(v);
        }
        // samples: the first non-trivial case at or after each sampling point
        if any_nontrivial && idx >= next_sample.load(std::sync::atomic::Ordering::Relaxed) && c.samples_len() < 12 {
            next_sample.store(idx + sample_every, std::sync::atomic::Ordering::Relaxed);
            c.sample(json!({"input": input}));
        }
        out
    });
}

fn alphabet_self_check(a: &Alphabet, n: u32) {
    let (canon, distinct) = a.self_check(n);
    if canon != distinct {
        eprintln!(
            "engine: alphabet {} is not uniquely decomposable at depth {n}: {canon} canonical sequences, {distinct} distinct strings",
            a.name
        );
        std::process::exit(2);
    }
    ctx().note(format!(
        "alphabet {} ({} symbols): canonical-decomposition self check at depth <= {n}: {canon} canonical sequences = {distinct} distinct strings",
        a.name,
        a.syms.len()
    ));
}

fn describe_alphabet(a: &Alphabet) -> J {
    json!({"alphabet": a.name, "symbols": a.syms})
}

// ---------------------------------------------------------------------------

pub fn c03_eval(cfg: &Config, s: &str) -> (Vec<Violation>, bool, u64) {
    let bad = c03_consumers(cfg, s);
    let v = bad
        .into_iter()
        .map(|(consumer, msg)| {
            Violation::new(
                format!("panic in {consumer}: {}", classify(&msg)),
                format!("{consumer} panicked: {msg}"),
                case_json(s, cfg),
            )
        })
        .collect();
    // non-trivial: the input produces something other than plain text
    let nontrivial = s.bytes().any(|b| matches!(b, b'@' | b'#' | b'~' | b'>' | b'=' | b'-' | b'\\' | b'{' | b':'));
    (v, nontrivial, fx_hash_str(s))
}

pub fn run_c03(tier: Tier) {
    let c = ctx();
    c.set_rule("every canonical symbol sequence up to the stated length over each alphabet, under each listed configuration, is fed to every public consumer (parse, parse_metadata, PullParser, into_meta_iter, build_ast, report write/Display, scale x4, default_scale, scale_to_servings x3, convert x2, group_ingredients/cookware, IngredientList from/add/categorize, all metadata accessors and CooklangValueExt methods, serde_json); non-trivial = the input contains a marker, comment, escape, brace or metadata character; distinct = distinct (input, configuration) pairs");
    c.assume("a panic, failed assertion or arithmetic overflow (the harness builds cooklang with debug-assertions and overflow-checks on) unwinds and is caught per consumer; a case that does not return within 60 s is reported as a hang");
    c.assume("process aborts (stack overflow, allocation failure) terminate the engine with a signal; the check script reports that as a machinery failure (exit 2), not as a verdict");
    let tok = a_tok();
    let wide = a_tok_wide();
    alphabet_self_check(&tok, 3);
    alphabet_self_check(&wide, 2);
    c.part(describe_alphabet(&wide));

    let all = Arc::new(configs(&all_extension_subsets(), &[Conv::Empty, Conv::Bundled]));
    let corners = Arc::new(corner_configs());
    let edges = Arc::new(configs(&edge_extension_subsets(), &[Conv::Empty, Conv::Bundled]));

    match tier {
        Tier::Quick => {
            string_sweep("C03 tokens", &wide, 0, 2, all.clone(), None, c03_eval);
            string_sweep("C03 tokens", &tok, 3, 3, edges.clone(), None, c03_eval);
            string_sweep("C03 tokens", &a_tok_small(), 4, 4, corners.clone(), None, c03_eval);
        }
        Tier::Thorough => {
            string_sweep("C03 tokens", &wide, 0, 3, all.clone(), None, c03_eval);
            string_sweep("C03 tokens", &tok, 4, 4, edges.clone(), None, c03_eval);
            string_sweep("C03 tokens", &a_tok_small(), 5, 5, corners.clone(), None, c03_eval);
        }
    }
    if c.has_violations() {
        return;
    }
    // analysis state machine
    let comp = a_comp();
    c.part(describe_alphabet(&comp));
    string_sweep("C03 components", &comp, 0, 2, all.clone(), None, c03_eval);
    string_sweep("C03 components", &comp, 3, 3, tier.pick(corners.clone(), edges.clone()), None, c03_eval);
    if tier == Tier::Thorough {
        string_sweep("C03 components", &comp, 4, 4, corners.clone(), None, c03_eval);
    }
    if c.has_violations() {
        return;
    }
    // metadata values under every standard key, both spellings
    let meta = a_meta();
    c.part(describe_alphabet(&meta));
    let keys = [
        "time", "prep time", "cook time", "servings", "tags", "author", "source", "locale", "title", "course",
    ];
    for key in keys {
        let n = tier.pick(2, 3);
        let pre: &'static str = Box::leak(format!(">> {key}: ").into_boxed_str());
        string_sweep(&format!("C03 metadata '{key}' (>>)"), &meta, 0, n, corners.clone(), Some((pre, "\n")), c03_eval);
        let pre: &'static str = Box::leak(format!("---\n{key}: ").into_boxed_str());
        string_sweep(&format!("C03 metadata '{key}' (front matter)"), &meta, 0, n, corners.clone(), Some((pre, "\n---\nstep\n")), c03_eval);
        if c.has_violations() {
            return;
        }
    }
    // several metadata entries in one document (repeated keys, aliases, entries that override each other)
    let lines = meta_lines_alphabet();
    c.part(describe_alphabet(&lines));
    string_sweep("C03 metadata entries", &lines, 0, tier.pick(4, 5), corners.clone(), None, c03_eval);
    if c.has_violations() {
        return;
    }
    crate::corpus::c03_edits(tier);
    size_boundary_sweep("C03 sizes", corners, c03_eval);
    deep_inputs();
}

// ---------------------------------------------------------------------------

/// whole metadata entries in both spellings, chosen to interact (time vs prep / cook time, aliases, repeats, invalid values)
pub fn meta_lines_alphabet() -> Alphabet {
    Alphabet::new(
        "A_meta_lines",
        &[
            ">> time: 1h\n", ">> prep time: 5\n", ">> cook time: 3\n", ">> time: soon\n", ">> duration: 10\n", ">> servings: 2\n", ">> servings: 2|2\n", ">> serves: 3\n", ">> tags: a\n", "step @a{1%kg}\n", "---\n", "time: 1h\n", "prep time: 5 min\n", "servings: [4, 2]\n",
        ],
    )
}

pub fn run_c04(tier: Tier) {
    let c = ctx();
    c.set_rule("every canonical symbol sequence up to the stated length (multi-byte symbols of 2, 3 and 4 bytes, Unicode space and punctuation included) under each configuration; oracle: hook tokens tile the input, every span of every event / Located / AST node / diagnostic label (event stream, build_ast, parse, parse_metadata) is in bounds on char boundaries with start <= end, every TextFragment equals the input slice at its span, fragments ordered, top-level events ordered and non-overlapping, SourceReport::write succeeds with and without colour; non-trivial = the event stream has a component, metadata entry, section, front matter or diagnostic; distinct = distinct hash of (event stream, configuration)");
    let tok = a_tok();
    let wide = a_tok_wide();
    alphabet_self_check(&tok, 3);
    alphabet_self_check(&wide, 2);
    c.part(describe_alphabet(&wide));
    let all = Arc::new(configs(&all_extension_subsets(), &[Conv::Bundled]));
    let two = Arc::new(configs(&[cooklang::Extensions::empty(), cooklang::Extensions::all()], &[Conv::Bundled]));
    match tier {
        Tier::Quick => {
            string_sweep("C04", &wide, 0, 2, all.clone(), None, c04_check);
            string_sweep("C04", &wide, 3, 3, two.clone(), None, c04_check);
            string_sweep("C04", &a_tok_small(), 4, 4, two.clone(), None, c04_check);
        }
        Tier::Thorough => {
            string_sweep("C04", &wide, 0, 3, all.clone(), None, c04_check);
            string_sweep("C04", &wide, 4, 4, two.clone(), None, c04_check);
            string_sweep("C04", &a_tok_small(), 5, 5, two.clone(), None, c04_check);
        }
    }
    if c.has_violations() {
        return;
    }
    let comp = a_comp();
    string_sweep("C04 components", &comp, 0, tier.pick(3, 4), two.clone(), None, c04_check);
    crate::corpus::edits_sweep("C04 corpus edits", tier, two.clone(), c04_check);
    size_boundary_sweep("C04 sizes", two, c04_check);
}

pub fn run_c05(tier: Tier) {
    let c = ctx();
    c.set_rule("every canonical symbol sequence up to the stated length (fence pairs `---\\n` at every position) under each configuration; for inputs whose event stream has no Error event, every alphanumeric character outside comments (independent scanner) must lie inside the span of an emitted event; non-trivial = the input has an alphanumeric character outside comments and at least one event with a span; distinct = distinct hash of (event stream, configuration)");
    let tok = a_tok();
    let wide = a_tok_wide();
    alphabet_self_check(&tok, 3);
    c.part(describe_alphabet(&wide));
    let all = Arc::new(configs(&all_extension_subsets(), &[Conv::Bundled]));
    let two = Arc::new(configs(&[cooklang::Extensions::empty(), cooklang::Extensions::all()], &[Conv::Bundled]));
    match tier {
        Tier::Quick => {
            string_sweep("C05", &wide, 0, 2, all.clone(), None, c05_check);
            string_sweep("C05", &tok, 3, 4, two.clone(), None, c05_check);
        }
        Tier::Thorough => {
            string_sweep("C05", &wide, 0, 3, all.clone(), None, c05_check);
            string_sweep("C05", &tok, 4, 5, two.clone(), None, c05_check);
            string_sweep("C05", &a_tok_small(), 6, 6, two.clone(), None, c05_check);
        }
    }
    if c.has_violations() {
        return;
    }
    // fence pairs with content before, between and after
    let fence = Alphabet::new("A_fence", &["a", " ", "\n", "---\n", "---", "--- \n", "k: v\n", "@b{1}", ">> k: v\n", "-", "\r\n", "= s\n", "---- t\n", "--- x: y\n", "k: [-1]\n", "-]"]);
    c.part(describe_alphabet(&fence));
    string_sweep("C05 fences", &fence, 0, tier.pick(5, 6), two.clone(), None, c05_check);
    crate::corpus::edits_sweep("C05 corpus edits", tier, two.clone(), c05_check);
    size_boundary_sweep("C05 sizes", two, c05_check);
}

pub fn run_c06(tier: Tier) {
    let c = ctx();
    c.set_rule("every sequence of analysis operations (component alphabet: definitions, references, intermediate references, mode and duplicate switches, sections, paragraphs) and every token string up to the stated length, under each configuration; the structural invariants of the property are evaluated on every returned recipe, valid or not; every prefix of a sequence is itself explored, so this is breadth-first search of the analysis state machine; non-trivial = the recipe has a component or more than one section; distinct = distinct hash of (recipe JSON, configuration)");
    let comp = a_comp();
    let tok = a_tok();
    c.part(describe_alphabet(&comp));
    let corners = Arc::new(corner_configs());
    let edges = Arc::new(configs(&edge_extension_subsets(), &[Conv::Bundled]));
    let all = Arc::new(configs(&all_extension_subsets(), &[Conv::Bundled]));
    // states / transitions of the explored operation tree
    let depth = tier.pick(3, 4);
    string_sweep("C06 components", &comp, 0, 2, all.clone(), None, c06_check);
    string_sweep("C06 components", &comp, 3, depth, edges.clone(), None, c06_check);
    if c.has_violations() {
        return;
    }
    let small = Alphabet::new(
        "A_comp_small",
        &["@a{1}", "@&a{2}", "@A", "\n\n", "#p", "#&p", "\n= s\n", "@&(~1)d{}", "@&(=1)s{}", "\n> n\n\n", "\n>> [mode]: steps\n", "\n>> [mode]: components\n", "\n>> [mode]: all\n", "\n>> [duplicate]: ref\n", "@+a", "\\", "\n>> [mode]: text\n", " text "],
    );
    c.part(describe_alphabet(&small));
    string_sweep("C06 components (reduced alphabet)", &small, depth + 1, tier.pick(5, 6), corners.clone(), None, c06_check);
    if c.has_violations() {
        return;
    }
    // whole blocks: sections with different layouts followed by intermediate references by number
    let blocks = Alphabet::new(
        "A_blocks_refs",
        &["step\n\n", "@a{1}\n\n", "> n\n\n", "= s\n", "@&(1)d{}\n\n", "@&(~1)d{}\n\n", "@&(=1)s{}\n\n", "@&(2)d{}\n\n", "x @&a{}\n\n"],
    );
    c.part(describe_alphabet(&blocks));
    string_sweep("C06 blocks", &blocks, 0, tier.pick(6, 7), corners.clone(), None, c06_check);
    if c.has_violations() {
        return;
    }
    // every combination of modifier characters after a marker, next to a definition of the same name
    let mods = Alphabet::new("A_modifiers", &["@a{1} ", "@", "#", "&", "+", "?", "-", "a", "{}", " "]);
    c.part(describe_alphabet(&mods));
    string_sweep("C06 modifiers", &mods, 0, tier.pick(6, 7), corners.clone(), None, c06_check);
    if c.has_violations() {
        return;
    }
    string_sweep("C06 tokens", &tok, 0, tier.pick(3, 4), corners.clone(), None, c06_check);
    if c.has_violations() {
        return;
    }
    string_sweep("C06 tokens (reduced alphabet)", &a_tok_small(), tier.pick(4, 5), tier.pick(4, 5), corners.clone(), None, c06_check);
    let st = comp.count_upto(depth) + small.count_upto(tier.pick(5, 6));
    c.states.store(st, std::sync::atomic::Ordering::Relaxed);
    c.transitions.store(st.saturating_sub(2), std::sync::atomic::Ordering::Relaxed);
    c.traces_validated.store(c.evaluations.load(std::sync::atomic::Ordering::Relaxed), std::sync::atomic::Ordering::Relaxed);
    c.note("states = nodes of the explored operation trees over the component alphabets (every node is an operation sequence whose resulting recipe was checked), transitions = tree edges (append one operation); traces_validated_against_impl = executions of the real parser+analysis, one per (sequence, configuration)");
    crate::corpus::edits_sweep("C06 corpus edits", tier, corners, c06_check);
}

pub fn run_c14(tier: Tier) {
    let c = ctx();
    c.set_rule("every canonical symbol sequence up to the stated length over the token alphabet and over a block-level alphabet (metadata lines, mode keys, sections, steps, paragraphs, fences, comments), under each configuration; whenever parse() and parse_metadata() both have output their metadata maps must be equal; non-trivial = one of the two maps is non-empty; distinct = distinct hash of (metadata map, configuration)");
    let tok = a_tok();
    alphabet_self_check(&tok, 3);
    c.part(describe_alphabet(&tok));
    let all = Arc::new(configs(&all_extension_subsets(), &[Conv::Bundled]));
    let two = Arc::new(configs(&[cooklang::Extensions::empty(), cooklang::Extensions::all()], &[Conv::Bundled]));
    let corners = Arc::new(corner_configs());
    match tier {
        Tier::Quick => {
            string_sweep("C14", &tok, 0, 2, all.clone(), None, c14_check);
            string_sweep("C14", &tok, 3, 4, two.clone(), None, c14_check);
        }
        Tier::Thorough => {
            string_sweep("C14", &tok, 0, 3, all.clone(), None, c14_check);
            string_sweep("C14", &tok, 4, 5, two.clone(), None, c14_check);
        }
    }
    if c.has_violations() {
        return;
    }
    let blocks = Alphabet::new(
        "A_blocks",
        &[
            ">> k: v\n", ">> time: 10\n", ">> [mode]: text\n", ">> [x]: y\n", ">> []: z\n", ">>k:v", " >> a: b\n", ">> a\n", ">> : v\n", "= s\n", "step @a{1}\n", "> p\n", "\n",
            "---\n", "k: v\n", "-- c\n", "[- c -]", "text ", ">> servings: 2|4\n", "\r\n", "[- c\n", "-]\n", "\\", "x",
        ],
    );
    c.part(describe_alphabet(&blocks));
    string_sweep("C14 blocks", &blocks, 0, 3, all.clone(), None, c14_check);
    string_sweep("C14 blocks", &blocks, 4, tier.pick(4, 5), corners.clone(), None, c14_check);
    string_sweep("C14 metadata entries", &meta_lines_alphabet(), 0, tier.pick(4, 5), two.clone(), None, c14_check);
    if c.has_violations() {
        return;
    }
    crate::corpus::edits_sweep("C14 corpus edits", tier, two, c14_check);
}

pub fn run_c17_crlf(tier: Tier) {
    let tok = a_tok();
    let two = Arc::new(configs(&[cooklang::Extensions::empty(), cooklang::Extensions::all()], &[Conv::Bundled]));
    let all = Arc::new(configs(&all_extension_subsets(), &[Conv::Bundled]));
    ctx().part(describe_alphabet(&tok));
    string_sweep("C17 CRLF", &tok, 0, 3, all, None, c17_crlf_check);
    string_sweep("C17 CRLF", &tok, 4, tier.pick(4, 5), two.clone(), None, c17_crlf_check);
    let blocks = Alphabet::new(
        "A_lines",
        &[">> k: v\n", "= s\n", "step @a{1}\n", "> p\n", "\n", "---\n", "k: v\n", "-- c\n", "[- c\n", "-]", "text", " ", "@b c{1%kg}", "\r\n", "~{1%min}", "t: |\n", "  x\n", "@a", "b{}", "#p|q", "(n", "m)", "{1%fl", "oz}", "{two", "big}"],
    );
    string_sweep("C17 CRLF lines", &blocks, 0, tier.pick(4, 5), two, None, c17_crlf_check);
}

/// Inputs with one very long token (and many tokens), at the sizes where a
/// narrow length or offset type would wrap: 2^8 and 2^16 +- 1.
// ---------------------------------------------------------------------------
// very many lines of one kind: recursion depth must not grow with the input (a stack overflow aborts the
// process, so each case runs in a child process on a thread with a 2 MiB stack)

pub const DEEP_CASES: [(&str, &str, usize); 8] = [
    ("`>>` lines without a colon", ">> x\n", 30_000),
    ("`>>` entries", ">> k: v\n", 30_000),
    ("one-line steps separated by blank lines", "a\n\n", 30_000),
    ("section headers", "= s\n", 30_000),
    ("lines of one multi-line step", "a\n", 30_000),
    ("`>` paragraph lines", "> a\n", 30_000),
    ("components in one step", "@a{1} ", 30_000),
    ("block comments", "[- c -] ", 30_000),
];

pub fn deep_child(case: usize) {
    let (_, unit, n) = DEEP_CASES[case % DEEP_CASES.len()];
    let input = unit.repeat(n);
    let h = std::thread::Builder::new().stack_size(2 << 20).spawn(move || {
        for ext in [cooklang::Extensions::all(), cooklang::Extensions::empty()] {
            let p = cooklang::CooklangParser::new(ext, cooklang::Converter::bundled());
            let r = p.parse(&input);
            let _ = r.report().iter().count();
            let _ = p.parse_metadata(&input);
            let n_events = cooklang::parser::PullParser::new(&input, ext).count();
            let _ = cooklang::parser::PullParser::new(&input, ext).into_meta_iter().count();
            let (ast, _) = cooklang::ast::build_ast(cooklang::parser::PullParser::new(&input, ext)).into_tuple();
            std::hint::black_box((n_events, ast.is_some()));
        }
    });
    match h.map(|h| h.join()) {
        Ok(Ok(())) => std::process::exit(0),
        _ => std::process::exit(3),
    }
}

pub fn deep_inputs() {
    let c = ctx();
    if c.has_violations() {
        return;
    }
    // the child is a separate binary built WITHOUT optimisation (harness/deep, dev profile): an optimised build
    // may turn a recursive tail call into a loop, the debug build of an application does not
    let exe = std::path::PathBuf::from("/verif/target/debug/deep");
    if !exe.exists() {
        eprintln!("engine: /verif/target/debug/deep is missing (./check builds it for C03)");
        std::process::exit(2);
    }
    let t0 = std::time::Instant::now();
    let handles: Vec<_> = (0..DEEP_CASES.len()).map(|i| { let exe = exe.clone(); std::thread::spawn(move || std::process::Command::new(exe).arg(i.to_string()).output()) }).collect();
    for (i, h) in handles.into_iter().enumerate() {
        let (name, unit, n) = DEEP_CASES[i];
        c.evaluations.fetch_add(10, std::sync::atomic::Ordering::Relaxed);
        c.nontrivial.fetch_add(1, std::sync::atomic::Ordering::Relaxed);
        match h.join() {
            Ok(Ok(o)) if o.status.success() => {}
            Ok(Ok(o)) => {
                let err = String::from_utf8_lossy(&o.stderr);
                let last = err.lines().rev().find(|l| !l.trim().is_empty()).unwrap_or("").chars().take(200).collect::<String>();
                c.violation(Violation::new(
                    format!("process aborted or panicked on {n} x {name}"),
                    format!("{n} repetitions of {unit:?} (parse, parse_metadata, events, metadata events, build_ast on a 2 MiB stack): child exit {:?}; {last}", o.status.code()),
                    json!({"kind": "deep", "case": i}),
                ));
            }
            _ => {
                eprintln!("engine: cannot run the child process for the deep-input cases");
                std::process::exit(2);
            }
        }
    }
    c.part(json!({"part": "very many lines of one kind, each case in a child process (unoptimised build) on a 2 MiB stack", "cases": DEEP_CASES.iter().map(|(n, u, k)| format!("{k} x {u:?} ({n})")).collect::<Vec<_>>(), "wall_s": t0.elapsed().as_secs_f64()}));
}

pub fn size_boundary_sweep(name: &str, cfgs: Arc<Vec<Config>>, eval: impl Fn(&Config, &str) -> (Vec<Violation>, bool, u64) + Sync) {
    if ctx().has_violations() {
        return;
    }
    const SIZES: [usize; 8] = [255, 256, 257, 65534, 65535, 65536, 65537, 70001];
    const KINDS: usize = 8;
    let build = |idx: u64| -> String {
        let n = SIZES[(idx as usize / 2) % SIZES.len()];
        let kind = (idx as usize / 2) / SIZES.len();
        let prefix = if idx % 2 == 0 { "" } else { "é @x{1} " };
        let long = match kind {
            0 => "a".repeat(n),
            1 => format!("a{}b", " ".repeat(n)),
            2 => format!("-- {}", "c".repeat(n)),
            3 => format!("[- {} -]", "c".repeat(n)),
            4 => "1".repeat(n),
            5 => "é".repeat(n / 2 + 1),
            6 => format!("@w{{{}%g}}", "9".repeat(n.min(400))),
            _ => "x ".repeat(n / 2),
        };
        format!("{prefix}{long}\nañade é @sal{{1%g}} 😀 y más #p ~{{5%min}}\n\n>> k: é\n= s é\n> p é\n")
    };
    let total = (KINDS * SIZES.len() * 2) as u64;
    let cf = cfgs.clone();
    sweep(&format!("{name}: one token of 255 .. 70001 bytes ({KINDS} token kinds x {} sizes x 2 prefixes) x {} configurations", SIZES.len(), cfgs.len()), total, move |i| json!({"input": build(i), "configs": cf.iter().map(|c| c.describe()).collect::<Vec<_>>()}), |idx, local| {
        let input = build(idx);
        let mut out = Vec::new();
        for cfg in cfgs.iter() {
            local.evaluations += 1;
            let (v, _, _) = eval(cfg, &input);
            out.extend(v);
        }
        local.nontrivial += 1;
        out
    });
}
