//! C09: unit conversion preserves the physical amount

use crate::common::*;
use cooklang::convert::{ConvertTo, ConvertUnit, ConvertValue, PhysicalQuantity, System, Unit};
use cooklang::quantity::{Number, Quantity, ScaledQuantity, Value};
use cooklang::{Converter, CooklangParser, Extensions};
use serde_json::{json, Value as J};
use std::sync::Arc;

/// Independent definitions: key -> (factor to the SI base unit, offset added before scaling)
/// amount_in_base = (value + offset) * factor
/// base units: cubic metre is avoided on purpose, the table uses litre, metre, gram, second, kelvin.
pub fn si_table() -> Vec<(&'static str, PhysicalQuantity, f64, f64)> {
    use PhysicalQuantity::*;
    let gal = 3.785411784; // US liquid gallon in litres, exact
    let mut v = vec![
        ("tsp", Volume, gal / 768.0, 0.0),
        ("tbsp", Volume, gal / 256.0, 0.0),
        ("fl oz", Volume, gal / 128.0, 0.0),
        ("cup", Volume, gal / 16.0, 0.0),
        ("pint", Volume, gal / 8.0, 0.0),
        ("quart", Volume, gal / 4.0, 0.0),
        ("gallon", Volume, gal, 0.0),
        ("foot", Length, 0.3048, 0.0),
        ("inch", Length, 0.0254, 0.0),
        ("ounce", Mass, 28.349523125, 0.0),
        ("pound", Mass, 453.59237, 0.0),
        ("second", Time, 1.0, 0.0),
        ("minute", Time, 60.0, 0.0),
        ("hour", Time, 3600.0, 0.0),
        ("day", Time, 86400.0, 0.0),
        ("celsius", Temperature, 1.0, 273.15),
        ("fahrenheit", Temperature, 5.0 / 9.0, 459.67),
        // only present in the layered converter of this check
        ("kelvin", Temperature, 1.0, 0.0),
        ("rankine", Temperature, 5.0 / 9.0, 0.0),
    ];
    for (base, q) in [("liter", Volume), ("meter", Length), ("gram", Mass)] {
        for (p, f) in [("kilo", 1e3), ("hecto", 1e2), ("deca", 1e1), ("", 1.0), ("deci", 1e-1), ("centi", 1e-2), ("milli", 1e-3)] {
            let name: &'static str = Box::leak(format!("{p}{base}").into_boxed_str());
            v.push((name, q, f, 0.0));
        }
    }
    v
}

fn keys(u: &Unit) -> Vec<String> {
    u.names.iter().chain(&u.symbols).chain(&u.aliases).map(|s| s.to_string()).collect()
}

fn close(a: f64, b: f64, rel: f64, scale_floor: f64) -> bool {
    let scale = a.abs().max(b.abs()).max(scale_floor);
    (a - b).abs() <= rel * scale
}

fn amount(u: &Unit, v: f64) -> f64 {
    (v + u.difference) * u.ratio
}

fn value_parts(v: &Value) -> Vec<f64> {
    match v {
        Value::Number(n) => vec![n.value()],
        Value::Range { start, end } => vec![start.value(), end.value()],
        Value::Text(_) => vec![],
    }
}

struct Env {
    conv: Converter,
    units: Vec<Arc<Unit>>,
    /// per unit: SI (factor, offset) if known
    si: Vec<Option<(f64, f64)>>,
    values: Vec<f64>,
}

fn build_env() -> Env {
    build_env_with(Converter::bundled())
}

/// bundled units + units/spanish.toml (a layer that extends the SI base units)
fn spanish_converter() -> Option<Converter> {
    let src = std::fs::read_to_string("/repo/units/spanish.toml").ok()?;
    let layer: cooklang::convert::UnitsFile = toml::from_str(&src).ok()?;
    cooklang::convert::ConverterBuilder::new().with_units_file(cooklang::convert::UnitsFile::bundled()).ok()?.with_units_file(layer).ok()?.finish().ok()
}

/// bundled units + a layer that adds units lying on the scale of an existing unit (same ratio, other offset)
fn extra_units_converter() -> Option<Converter> {
    let layer: cooklang::convert::UnitsFile = toml::from_str(
        // (and corrects the rounded ratio of fahrenheit without repeating its offset)
        "[extend.units]\nF = { ratio = 0.5555555555555556 }\n[[quantity]]\nquantity = \"temperature\"\n[quantity.units]\nmetric = [ { names = [\"kelvin\"], symbols = [\"K\"], ratio = 1, difference = 0 } ]\nimperial = [ { names = [\"rankine\"], symbols = [\"R\"], ratio = 0.55555555556, difference = 0 } ]\n",
    )
    .ok()?;
    cooklang::convert::ConverterBuilder::new().with_units_file(cooklang::convert::UnitsFile::bundled()).ok()?.with_units_file(layer).ok()?.finish().ok()
}

/// bundled units + a layer that makes imperial the default system and adds units that belong to no system
fn imperial_default_converter() -> Option<Converter> {
    let layer: cooklang::convert::UnitsFile = toml::from_str(
        "default_system = \"imperial\"\n[[quantity]]\nquantity = \"mass\"\n[quantity.units]\nunspecified = [ { names = [\"stick\"], symbols = [\"stk\"], ratio = 113.4 } ]\n[[quantity]]\nquantity = \"volume\"\n[quantity.units]\nunspecified = [ { names = [\"glass\"], symbols = [\"gls\"], ratio = 0.2 } ]\n",
    )
    .ok()?;
    cooklang::convert::ConverterBuilder::new().with_units_file(cooklang::convert::UnitsFile::bundled()).ok()?.with_units_file(layer).ok()?.finish().ok()
}

/// bundled units + an extend-only layer (same number of units, same keys, other ratios)
fn reratio_converter() -> Option<Converter> {
    let layer: cooklang::convert::UnitsFile = toml::from_str("[extend.units]\ncup = { ratio = 0.25 }\nlb = { ratio = 500 }\nin = { ratio = 0.025 }\n").ok()?;
    cooklang::convert::ConverterBuilder::new().with_units_file(cooklang::convert::UnitsFile::bundled()).ok()?.with_units_file(layer).ok()?.finish().ok()
}

/// bundled units + two extend-only layers that both give `cup` a ratio: the later layer decides
fn two_extends_converter() -> Option<Converter> {
    let l1: cooklang::convert::UnitsFile = toml::from_str("[extend.units]\ncup = { ratio = 0.25 }\nlb = { ratio = 500 }\n").ok()?;
    let l2: cooklang::convert::UnitsFile = toml::from_str("[extend.units]\nc = { ratio = 0.24 }\n").ok()?;
    cooklang::convert::ConverterBuilder::new().with_units_file(cooklang::convert::UnitsFile::bundled()).ok()?.with_units_file(l1).ok()?.with_units_file(l2).ok()?.finish().ok()
}

/// the same key looked up alternately on two converters that give it different meanings:
/// each answer must follow the converter's own unit table
fn check_alternation(a: &Converter, b: &Converter, out: &mut Vec<Violation>, local: &mut Local) {
    let own = |c: &Converter, key: &str| -> Option<(f64, f64, PhysicalQuantity)> { c.all_units().find(|u| keys(u).iter().any(|k| k == key)).map(|u| (u.ratio, u.difference, u.physical_quantity)) };
    let all_keys: Vec<String> = a.all_units().flat_map(|u| keys(u)).collect();
    for key in &all_keys {
        let Some((_, _, q)) = own(a, key) else { continue };
        if q == PhysicalQuantity::Temperature {
            continue;
        }
        let target = match q {
            PhysicalQuantity::Volume => "ml",
            PhysicalQuantity::Mass => "g",
            PhysicalQuantity::Length => "cm",
            PhysicalQuantity::Time => "s",
            PhysicalQuantity::Temperature => "C",
        };
        // nothing but lookups of this one key, alternating between the converters
        for (round, conv) in [a, b, a, b, b, a].into_iter().enumerate() {
            let Some((rf, df, _)) = own(conv, key) else { continue };
            local.evaluations += 1;
            let qv: ScaledQuantity = Quantity::new(Value::Number(Number::Regular(2.0)), Some(key.clone()));
            let got = qv.unit_info(conv).map(|u| (u.ratio, u.difference));
            let direct = conv.find_unit(key).map(|u| (u.ratio, u.difference));
            if got != Some((rf, df)) || direct != Some((rf, df)) {
                out.push(Violation::new(
                    "a key looked up on one converter is answered with another converter's unit",
                    format!("round {round}: key {key:?} on the {} converter resolves to (ratio, difference) {got:?} / {direct:?}, its own unit table has {:?}", if std::ptr::eq(conv, a) { "bundled" } else { "re-ratioed" }, (rf, df)),
                    json!({"kind": "alternation", "key": key}),
                ));
                return;
            }
        }
        for (round, conv) in [a, b, a, b, b, a].into_iter().enumerate() {
            let (Some((rf, _, _)), Some((rt, _, _))) = (own(conv, key), own(conv, target)) else { continue };
            local.evaluations += 1;
            let mut qv: ScaledQuantity = Quantity::new(Value::Number(Number::Regular(2.0)), Some(key.clone()));
            let expect = 2.0 * rf / rt;
            match qv.convert(target, conv) {
                Ok(()) => {
                    let got = value_parts(qv.value()).first().copied().unwrap_or(f64::NAN);
                    if !close(got, expect, 1e-9, 1e-300) {
                        out.push(Violation::new(
                            "a key looked up on one converter is answered with another converter's unit",
                            format!("round {round}: 2 {key} -> {target} on the {} converter gave {got:?}, its own unit table gives {expect:?}", if std::ptr::eq(conv, a) { "bundled" } else { "re-ratioed" }),
                            json!({"kind": "alternation", "key": key}),
                        ));
                        return;
                    }
                }
                Err(e) => {
                    out.push(Violation::new("conversion of a known unit failed", format!("2 {key} -> {target}: {e}"), json!({"kind": "alternation", "key": key})));
                    return;
                }
            }
        }
    }
}

fn build_env_with(conv: Converter) -> Env {
    let table = si_table();
    let mut units = Vec::new();
    let mut si = Vec::new();
    for u in conv.all_units() {
        let arc = conv.find_unit(u.symbol()).expect("unit resolves by its own symbol");
        let ks = keys(u);
        let e = table.iter().find(|(k, q, _, _)| *q == u.physical_quantity && ks.iter().any(|x| x == k));
        si.push(e.map(|(_, _, f, o)| (*f, *o)));
        units.push(arc);
    }
    // value grid
    let mut values = vec![0.0, 1.0, 2.5, 1e-3, 12345.678, -40.0, 0.5, 3.0, 100.0, 0.33, 1.96, 2.04, 37.0, 1e6];
    // thresholds of the best-unit switches, expressed in every unit of the quantity
    let mut extra = Vec::new();
    for (i, u) in units.iter().enumerate() {
        if si[i].is_none() {
            continue;
        }
        for sys in [System::Metric, System::Imperial] {
            for b in conv.best_units(u.physical_quantity, Some(sys)) {
                if b.physical_quantity != u.physical_quantity {
                    continue;
                }
                let one_b_in_u = amount(&b, 1.0) / u.ratio - u.difference;
                for f in [1.0, 1.0 - 1e-9, 1.0 + 1e-9, 0.999, 0.9999995, 1.001] {
                    extra.push(one_b_in_u * f);
                }
            }
        }
    }
    extra.sort_by(|a, b| a.partial_cmp(b).unwrap());
    extra.dedup();
    // keep the grid bounded: thresholds are per unit, use the distinct magnitudes
    let mut seen = std::collections::BTreeSet::new();
    for e in extra {
        if e.is_finite() && seen.insert((e * 1e9).round() as i128) {
            values.push(e);
        }
    }
    Env { conv, units, si, values }
}

fn vcase(kind: &str, from: &str, to: &str, v: &str) -> J {
    json!({"kind": kind, "from": from, "to": to, "value": v})
}

fn check_pair(env: &Env, i: usize, j: usize, v: f64, out: &mut Vec<Violation>, local: &mut Local) {
    let (a, b) = (&env.units[i], &env.units[j]);
    let conv = &env.conv;
    let temp = a.physical_quantity == PhysicalQuantity::Temperature;
    let floor = if temp { 273.15 } else { 1e-300 };
    local.evaluations += 1;
    let direct = conv.convert(ConvertValue::Number(v), ConvertUnit::Key(a.symbol()), ConvertTo::Unit(ConvertUnit::Key(b.symbol())));
    let case = || vcase("pair", a.symbol(), b.symbol(), &format!("{v:?}"));
    let d = match direct {
        Ok((ConvertValue::Number(d), u)) => {
            if !Arc::ptr_eq(&u, b) && *u != **b {
                out.push(Violation::new("conversion returned another unit", format!("{v} {} -> {}: got unit {}", a.symbol(), b.symbol(), u.symbol()), case()));
                return;
            }
            d
        }
        other => {
            out.push(Violation::new("same-quantity conversion failed", format!("{v} {} -> {}: {other:?}", a.symbol(), b.symbol()), case()));
            return;
        }
    };
    // SI definition
    if let (Some((fa, oa)), Some((fb, ob))) = (env.si[i], env.si[j]) {
        let expect = (v + oa) * fa / fb - ob;
        // compare amounts in the base unit so that offsets do not magnify the tolerance
        let got_base = (d + ob) * fb;
        let exp_base = (expect + ob) * fb;
        if !close(got_base, exp_base, 1e-6, if temp { 273.15 } else { 1e-300 }) {
            out.push(Violation::new(
                "conversion differs from the unit definitions",
                format!("{v} {} -> {}: got {d:?}, the standard definitions give {expect:?}", a.symbol(), b.symbol()),
                case(),
            ));
            return;
        }
    }
    // there and back
    if let Ok((ConvertValue::Number(back), _)) = conv.convert(ConvertValue::Number(d), ConvertUnit::Unit(b), ConvertTo::Unit(ConvertUnit::Unit(a))) {
        let ok = if temp { close(back + a.difference, v + a.difference, 1e-9, floor / a.ratio.max(1e-300)) } else { close(back, v, 1e-9, 1e-300) };
        if !ok {
            out.push(Violation::new("there-and-back conversion differs", format!("{v} {} -> {} -> back = {back:?}", a.symbol(), b.symbol()), case()));
        }
    } else {
        out.push(Violation::new("same-quantity conversion failed", format!("back conversion {d} {} -> {}", b.symbol(), a.symbol()), case()));
    }
}

fn check_triple(env: &Env, i: usize, j: usize, k: usize, v: f64, out: &mut Vec<Violation>, local: &mut Local) {
    let (a, b, c) = (&env.units[i], &env.units[j], &env.units[k]);
    let conv = &env.conv;
    local.evaluations += 1;
    let cv = |x: f64, f: &Arc<Unit>, t: &Arc<Unit>| match conv.convert(ConvertValue::Number(x), ConvertUnit::Unit(f), ConvertTo::Unit(ConvertUnit::Unit(t))) {
        Ok((ConvertValue::Number(d), _)) => Some(d),
        _ => None,
    };
    let (Some(direct), Some(mid)) = (cv(v, a, c), cv(v, a, b)) else { return };
    let Some(via) = cv(mid, b, c) else { return };
    let temp = a.physical_quantity == PhysicalQuantity::Temperature;
    let ok = if temp { close((via + c.difference) * c.ratio, (direct + c.difference) * c.ratio, 1e-9, 273.15) } else { close(via, direct, 1e-9, 1e-300) };
    if !ok {
        out.push(Violation::new(
            "conversion via a third unit differs from the direct one",
            format!("{v} {} -> {} = {direct:?} but via {} = {via:?}", a.symbol(), c.symbol(), b.symbol()),
            json!({"kind": "triple", "from": a.symbol(), "via": b.symbol(), "to": c.symbol(), "value": format!("{v:?}")}),
        ));
    }
}

/// quantity-level operations: convert(System), fit, convert(unit) incl. ranges and fraction errors
fn check_quantity_ops(env: &Env, i: usize, val: &Value, out: &mut Vec<Violation>, local: &mut Local) {
    let u = &env.units[i];
    let conv = &env.conv;
    let temp = u.physical_quantity == PhysicalQuantity::Temperature;
    let q0: ScaledQuantity = Quantity::new(val.clone(), Some(u.symbol().to_string()));
    let before: Vec<f64> = value_parts(val).iter().map(|x| amount(u, *x)).collect();
    let mut ops: Vec<(String, Option<System>, bool)> = vec![
        ("convert(Metric)".into(), Some(System::Metric), false),
        ("convert(Imperial)".into(), Some(System::Imperial), false),
        ("fit".into(), u.system, true),
    ];
    ops.push(("convert(SameSystem)".into(), u.system, true));
    // explicit target units: every best unit of the quantity in both systems
    let mut targets: Vec<Arc<Unit>> = conv.best_units(u.physical_quantity, None);
    targets.dedup_by(|a, b| a.symbol() == b.symbol());
    for t in &targets {
        local.evaluations += 1;
        let mut q = q0.clone();
        let case = json!({"kind": "quantity", "op": format!("convert(unit {})", t.symbol()), "unit": u.symbol(), "value": format!("{val:?}"), "value_json": serde_json::to_value(val).unwrap_or(J::Null)});
        match q.convert(t.symbol(), conv) {
            Err(e) => out.push(Violation::new("conversion of a known unit failed", format!("{q0} to {}: {e}", t.symbol()), case)),
            Ok(()) => {
                let same_unit = q.unit().and_then(|x| conv.find_unit(x)).map(|x| *x == **t).unwrap_or(false);
                let after: Vec<f64> = value_parts(q.value()).iter().map(|x| amount(t, *x)).collect();
                if !same_unit || after.len() != before.len() || !before.iter().zip(&after).all(|(a, b)| close(*a, *b, 1e-9, if temp { 273.15 } else { 1e-300 })) {
                    out.push(Violation::new("conversion does not preserve the amount", format!("{q0} to {} gave {q:?}: amounts in base units {before:?} -> {after:?}", t.symbol()), case));
                }
            }
        }
    }
    for (name, sys, same) in ops {
        local.evaluations += 1;
        let mut q = q0.clone();
        let r = match name.as_str() {
            "convert(Metric)" => q.convert(System::Metric, conv),
            "convert(Imperial)" => q.convert(System::Imperial, conv),
            "fit" => q.fit(conv),
            _ => q.convert(ConvertTo::SameSystem, conv),
        };
        let case = json!({"kind": "quantity", "op": name, "unit": u.symbol(), "value": format!("{val:?}"), "value_json": serde_json::to_value(val).unwrap_or(J::Null)});
        if let Err(e) = r {
            out.push(Violation::new("conversion of a known unit failed", format!("{name} of {q0} failed: {e}"), case));
            continue;
        }
        let Some(nu) = q.unit().and_then(|t| conv.find_unit(t)) else {
            out.push(Violation::new("converted quantity has an unknown unit", format!("{name} of {q0} gave {q}"), case));
            continue;
        };
        if nu.physical_quantity != u.physical_quantity {
            out.push(Violation::new("conversion changed the physical quantity", format!("{name} of {q0} gave {q}"), case));
            continue;
        }
        let target = if same { sys.or(Some(conv.default_system())) } else { sys };
        let best = conv.best_units(u.physical_quantity, target);
        if !best.iter().any(|b| **b == *nu) {
            out.push(Violation::new(
                "converted unit is not in the designated best-unit list",
                format!("{name} of {q0} gave {q}; best units for {:?}/{target:?}: {:?}", u.physical_quantity, best.iter().map(|b| b.symbol().to_string()).collect::<Vec<_>>()),
                case,
            ));
            continue;
        }
        let after: Vec<f64> = value_parts(q.value()).iter().map(|x| amount(&nu, *x)).collect();
        if after.len() != before.len() || !before.iter().zip(&after).all(|(a, b)| close(*a, *b, 1e-9, if temp { 273.15 } else { 1e-300 })) {
            out.push(Violation::new(
                "conversion does not preserve the amount",
                format!("{name} of {q0} gave {q:?}: amounts in base units {before:?} -> {after:?}"),
                case,
            ));
        }
    }
}

fn check_failures(env: &Env, out: &mut Vec<Violation>, local: &mut Local) {
    let conv = &env.conv;
    let empty = Converter::empty();
    let mut cases: Vec<(ScaledQuantity, ConvertTo, &Converter, &str)> = Vec::new();
    let num = Value::Number(Number::Regular(2.5));
    let rng = Value::Range { start: Number::Regular(1.0), end: Number::Fraction { whole: 1, num: 1, den: 2, err: 0.001 } };
    let txt = Value::Text("some".into());
    for v in [&num, &rng, &txt] {
        for unit in [None, Some("kg"), Some("foo"), Some("C")] {
            let q: ScaledQuantity = Quantity::new(v.clone(), unit.map(|s| s.to_string()));
            for to in [ConvertTo::Best(System::Metric), ConvertTo::Best(System::Imperial), ConvertTo::SameSystem, ConvertTo::Unit(ConvertUnit::Key("l")), ConvertTo::Unit(ConvertUnit::Key("foo")), ConvertTo::Unit(ConvertUnit::Key("min"))] {
                cases.push((q.clone(), to, conv, "bundled"));
                cases.push((q.clone(), to, &empty, "empty"));
            }
        }
    }
    for (q, to, c, cname) in cases {
        local.evaluations += 1;
        let must_fail = q.value().is_text_value()
            || q.unit().is_none()
            || c.find_unit(q.unit().unwrap()).is_none()
            || match to {
                ConvertTo::Unit(ConvertUnit::Key(k)) => match (c.find_unit(k), c.find_unit(q.unit().unwrap())) {
                    (Some(t), Some(f)) => t.physical_quantity != f.physical_quantity,
                    _ => true,
                },
                _ => false,
            };
        let mut q2 = q.clone();
        let r = q2.convert(to, c);
        let case = json!({"kind": "failure", "quantity": format!("{q:?}"), "to": format!("{to:?}"), "converter": cname});
        match (must_fail, r) {
            (true, Ok(())) => out.push(Violation::new("invalid conversion succeeded", format!("{q:?} to {to:?} with the {cname} converter gave {q2:?}"), case)),
            (true, Err(_)) => {
                if format!("{q:?}") != format!("{q2:?}") {
                    out.push(Violation::new("failed conversion changed the quantity", format!("{q:?} to {to:?} failed but left {q2:?}"), case));
                }
            }
            (false, Err(e)) => out.push(Violation::new("conversion of a known unit failed", format!("{q:?} to {to:?}: {e}"), case)),
            (false, Ok(())) => {}
        }
    }
}

trait IsText {
    fn is_text_value(&self) -> bool;
}
impl IsText for Value {
    fn is_text_value(&self) -> bool {
        matches!(self, Value::Text(_))
    }
}

/// ScaledRecipe::convert: one error per failing quantity, cookware untouched
fn check_recipes(out: &mut Vec<Violation>, local: &mut Local) {
    let parser = CooklangParser::new(Extensions::all(), Converter::bundled());
    let conv = parser.converter();
    let atoms = ["@a{1%kg}", "@b{2}", "@c{some%kg}", "@d{1%foo}", "#p{3}", "~t{5%min}", "heat to 180 C ", "@e{1-2%cups}", "@f{1 1/2%tsp}", "#q{big}", "@g{3%l}", "~{90%s}", "then add 500 ml and wait 90 min ", "cut 20 cm or 2 cups of it "];
    let n = atoms.len();
    // all subsets of size <= 3 in order + the full recipe
    let mut recipes: Vec<String> = Vec::new();
    for a in 0..n {
        recipes.push(atoms[a].to_string());
        for b in 0..n {
            recipes.push(format!("{} {}", atoms[a], atoms[b]));
            for c in 0..n {
                if a < b && b < c {
                    recipes.push(format!("{} {} {}", atoms[a], atoms[b], atoms[c]));
                }
            }
        }
    }
    recipes.push(atoms.join(" "));
    for src in recipes {
        for sys in [System::Metric, System::Imperial] {
            for factor in [1.0, 3.0] {
                local.evaluations += 1;
                let Some(rec) = parser.parse(&src).into_output() else { continue };
                let mut sc = rec.scale(factor, conv);
                let before = serde_json::to_value(&sc).unwrap();
                let cookware_before = format!("{:?}", sc.cookware);
                // expected: each quantity converted on its own
                let mut expected_errors = 0;
                let mut expected: Vec<String> = Vec::new();
                let mut one = |q: &ScaledQuantity| {
                    let mut q2 = q.clone();
                    if q2.convert(sys, conv).is_err() {
                        expected_errors += 1;
                        expected.push(format!("{q:?}"));
                    } else {
                        expected.push(format!("{q2:?}"));
                    }
                };
                for i in &sc.ingredients {
                    if let Some(q) = &i.quantity {
                        one(q)
                    }
                }
                for t in &sc.timers {
                    if let Some(q) = &t.quantity {
                        one(q)
                    }
                }
                for q in &sc.inline_quantities {
                    one(q)
                }
                let errs = sc.convert(sys, conv);
                let mut got: Vec<String> = Vec::new();
                for i in &sc.ingredients {
                    if let Some(q) = &i.quantity {
                        got.push(format!("{q:?}"))
                    }
                }
                for t in &sc.timers {
                    if let Some(q) = &t.quantity {
                        got.push(format!("{q:?}"))
                    }
                }
                for q in &sc.inline_quantities {
                    got.push(format!("{q:?}"))
                }
                let case = json!({"kind": "recipe", "source": src, "system": format!("{sys:?}"), "factor": factor});
                if errs.len() != expected_errors {
                    out.push(Violation::new("ScaledRecipe::convert error count", format!("{} errors returned, {expected_errors} quantities fail individually", errs.len()), case.clone()));
                }
                if got != expected {
                    out.push(Violation::new("ScaledRecipe::convert result differs from converting each quantity", format!("got {got:?} expected {expected:?}"), case.clone()));
                }
                if format!("{:?}", sc.cookware) != cookware_before {
                    out.push(Violation::new("ScaledRecipe::convert changed cookware", format!("{cookware_before} -> {:?}", sc.cookware), case.clone()));
                }
                // everything that is not a quantity is untouched
                let mut after = serde_json::to_value(&sc).unwrap();
                let mut b2 = before.clone();
                for v in [&mut after, &mut b2] {
                    for key in ["ingredients", "timers"] {
                        if let Some(a) = v.get_mut(key).and_then(|x| x.as_array_mut()) {
                            for e in a {
                                e["quantity"] = J::Null;
                            }
                        }
                    }
                    v["inline_quantities"] = J::Null;
                }
                if after != b2 {
                    out.push(Violation::new("ScaledRecipe::convert changed something other than quantities", format!("{b2} -> {after}"), case));
                }
            }
        }
    }
}

pub fn run(tier: Tier) {
    let c = ctx();
    c.set_rule("finite product: every ordered pair (and triple) of same-quantity units of the bundled converter x a value grid (0, 1, 2.5, 1e-3, 12345.678, -40, ..., every best-unit threshold in every unit with +-1e-9 and +-1e-3 perturbations) checked against an independent table of SI definitions (1e-6), there-and-back and via-third-unit agreement (1e-9); every unit x value x {number, range, fraction with error} x {convert(Metric), convert(Imperial), fit, convert(SameSystem)}: result unit in the designated best list, amount incl. fraction error preserved (1e-9); failure matrix {text, unitless, unknown, cross-quantity} x both converters leaves the quantity bit-for-bit unchanged; ScaledRecipe::convert on all recipes of <= 3 of 12 atoms x 2 systems x 2 factors; non-trivial = every evaluation (each is a distinct grid point)");
    let env = Arc::new(build_env());
    let nu = env.units.len();
    let nv = env.values.len();
    c.part(json!({"units": env.units.iter().map(|u| u.symbol().to_string()).collect::<Vec<_>>(), "units_with_independent_definition": env.si.iter().filter(|s| s.is_some()).count(), "values_in_grid": nv}));
    if env.si.iter().filter(|s| s.is_some()).count() < 30 {
        c.note("fewer than 30 units could be matched to the independent definition table");
    }
    // every key resolves to its unit (needed so that the grid really exercises the named units)
    let e = env.clone();
    sweep("C09 pairs x values", (nu * nu * nv) as u64, {
        let e = env.clone();
        move |idx| {
            let (i, j, k) = ((idx as usize / nv) / nu, (idx as usize / nv) % nu, idx as usize % nv);
            vcase("pair", e.units[i].symbol(), e.units[j].symbol(), &format!("{:?}", e.values[k]))
        }
    }, |idx, local| {
        let (i, j, k) = ((idx as usize / nv) / nu, (idx as usize / nv) % nu, idx as usize % nv);
        let mut out = Vec::new();
        if e.units[i].physical_quantity != e.units[j].physical_quantity {
            // cross-quantity conversion must fail
            local.evaluations += 1;
            if k == 0 {
                let r = e.conv.convert(ConvertValue::Number(1.0), ConvertUnit::Unit(&e.units[i]), ConvertTo::Unit(ConvertUnit::Unit(&e.units[j])));
                if r.is_ok() {
                    out.push(Violation::new("cross-quantity conversion succeeded", format!("{} -> {}", e.units[i].symbol(), e.units[j].symbol()), vcase("pair", e.units[i].symbol(), e.units[j].symbol(), "1.0")));
                }
            }
            return out;
        }
        check_pair(&e, i, j, e.values[k], &mut out, local);
        local.nontrivial += 1;
        out
    });
    if c.has_violations() {
        return;
    }
    let tv: Vec<f64> = tier.pick(vec![1.0, 2.5, -40.0, 12345.678], env.values.iter().copied().take(40).collect());
    let ntv = tv.len();
    let e = env.clone();
    let tv2 = tv.clone();
    sweep("C09 triples x values", (nu * nu * nu * ntv) as u64, move |idx| json!({"kind": "triple", "index": idx, "values": tv2}), |idx, local| {
        let idx = idx as usize;
        let (k, rest) = (idx % ntv, idx / ntv);
        let (c3, rest) = (rest % nu, rest / nu);
        let (b, a) = (rest % nu, rest / nu);
        let mut out = Vec::new();
        let q = e.units[a].physical_quantity;
        if e.units[b].physical_quantity != q || e.units[c3].physical_quantity != q {
            return out;
        }
        check_triple(&e, a, b, c3, tv[k], &mut out, local);
        local.nontrivial += 1;
        out
    });
    if c.has_violations() {
        return;
    }
    // quantity level
    let e = env.clone();
    let shapes = 5usize;
    sweep("C09 quantity operations: units x values x shapes x {convert(Metric), convert(Imperial), fit, convert(SameSystem)}", (nu * nv * shapes) as u64, {
        let e = env.clone();
        move |idx| json!({"kind": "quantity", "unit": e.units[(idx as usize / shapes) / nv].symbol(), "value": e.values[(idx as usize / shapes) % nv], "shape": idx as usize % shapes})
    }, |idx, local| {
        let idx = idx as usize;
        let (shape, rest) = (idx % shapes, idx / shapes);
        let (k, i) = (rest % nv, rest / nv);
        let v = e.values[k];
        let val = match shape {
            0 => Value::Number(Number::Regular(v)),
            1 => Value::Range { start: Number::Regular(v), end: Number::Regular(v * 2.0 + 1.0) },
            2 => Value::Number(Number::Fraction { whole: v.abs().trunc().min(1e6) as u32, num: 1, den: 3, err: 0.0042 }),
            3 => Value::Range { start: Number::Fraction { whole: 1, num: 1, den: 2, err: -0.01 }, end: Number::Regular(v.abs() + 2.0) },
            _ => Value::Number(Number::Regular(v * 1.04)),
        };
        let mut out = Vec::new();
        check_quantity_ops(&e, i, &val, &mut out, local);
        local.nontrivial += 4;
        out
    });
    if c.has_violations() {
        return;
    }
    // the same pair law on a layered converter (bundled + units/spanish.toml)
    if let Some(sp) = spanish_converter() {
        let e2 = Arc::new(build_env_with(sp));
        let (nu2, nv2) = (e2.units.len(), 6usize);
        let e3 = e2.clone();
        sweep("C09 pairs on the layered converter (bundled + spanish)", (nu2 * nu2 * nv2) as u64, move |idx| {
            let (i, j, k) = ((idx as usize / nv2) / nu2, (idx as usize / nv2) % nu2, idx as usize % nv2);
            vcase("pair (spanish layer)", e3.units[i].symbol(), e3.units[j].symbol(), &format!("{:?}", e3.values[k]))
        }, |idx, local| {
            let (i, j, k) = ((idx as usize / nv2) / nu2, (idx as usize / nv2) % nu2, idx as usize % nv2);
            let mut out = Vec::new();
            if e2.units[i].physical_quantity == e2.units[j].physical_quantity {
                check_pair(&e2, i, j, e2.values[k], &mut out, local);
                // every key of the unit converts like its symbol
                if k == 1 {
                    for key in keys(&e2.units[i]) {
                        let r = e2.conv.convert(ConvertValue::Number(1.0), ConvertUnit::Key(&key), ConvertTo::Unit(ConvertUnit::Unit(&e2.units[j])));
                        let d = e2.conv.convert(ConvertValue::Number(1.0), ConvertUnit::Unit(&e2.units[i]), ConvertTo::Unit(ConvertUnit::Unit(&e2.units[j])));
                        if format!("{:?}", r.map(|x| x.0)) != format!("{:?}", d.map(|x| x.0)) {
                            out.push(Violation::new("a key of a unit converts differently from the unit", format!("key {key:?} of {} -> {}", e2.units[i].symbol(), e2.units[j].symbol()), vcase("pair (spanish layer)", &key, e2.units[j].symbol(), "1.0")));
                        }
                    }
                }
                local.nontrivial += 1;
            }
            out
        });
        if c.has_violations() {
            return;
        }
    } else {
        c.note("units/spanish.toml could not be layered over the bundled units; the layered-converter part was skipped");
    }
    // pair and triple laws on a converter with extra units on the scale of existing ones (kelvin, rankine)
    if let Some(x) = extra_units_converter() {
        let e2 = Arc::new(build_env_with(x));
        let temps: Vec<usize> = (0..e2.units.len()).filter(|&i| e2.units[i].physical_quantity == PhysicalQuantity::Temperature).collect();
        let nt = temps.len();
        let vals = [-40.0, 0.0, 32.0, 100.0, 180.0, 451.0];
        let e3 = e2.clone();
        let t3 = temps.clone();
        sweep("C09 temperature pairs and triples on the layered converter (bundled + kelvin, rankine)", (nt * nt * nt * vals.len()) as u64, move |idx| {
            let idx = idx as usize;
            let (k, rest) = (idx % vals.len(), idx / vals.len());
            vcase("pair (extra units layer)", e3.units[t3[rest / (nt * nt)]].symbol(), e3.units[t3[rest % nt]].symbol(), &format!("{:?}", vals[k]))
        }, |idx, local| {
            let idx = idx as usize;
            let (k, rest) = (idx % vals.len(), idx / vals.len());
            let (a, b, c3) = (temps[rest / (nt * nt)], temps[(rest / nt) % nt], temps[rest % nt]);
            let mut out = Vec::new();
            if b == 0 || b == a {
                check_pair(&e2, a, c3, vals[k], &mut out, local);
            }
            check_triple(&e2, a, b, c3, vals[k], &mut out, local);
            local.nontrivial += 1;
            out
        });
        if c.has_violations() {
            return;
        }
    } else {
        c.note("the layer with kelvin and rankine could not be built; that part was skipped");
    }
    // quantity operations on a converter whose default system is imperial and which has units of no system
    if let Some(x) = imperial_default_converter() {
        let e2 = Arc::new(build_env_with(x));
        let (nu2, nv2) = (e2.units.len(), e2.values.len());
        let e3 = e2.clone();
        sweep("C09 quantity operations on the layered converter (imperial default, units without a system)", (nu2 * nv2) as u64, move |idx| json!({"kind": "quantity (imperial default layer)", "unit": e3.units[idx as usize / nv2].symbol(), "value": e3.values[idx as usize % nv2]}), |idx, local| {
            let (i, k) = (idx as usize / nv2, idx as usize % nv2);
            let mut out = Vec::new();
            check_quantity_ops(&e2, i, &Value::Number(Number::Regular(e2.values[k])), &mut out, local);
            for v in &mut out {
                v.case["kind"] = json!("quantity (imperial default layer)");
            }
            local.nontrivial += 4;
            out
        });
        if c.has_violations() {
            return;
        }
    } else {
        c.note("the layer with an imperial default system could not be built; that part was skipped");
    }
    // two extend layers on one unit: conversions follow the later one
    if let Some(x) = two_extends_converter() {
        sweep("C09 two extend layers that both set the ratio of one unit", 1, |_| json!({"kind": "two extends"}), move |_, local| {
            let mut out = Vec::new();
            for (from, to, expect) in [("cup", "ml", 240.0), ("c", "l", 0.24), ("lb", "g", 500.0), ("l", "cups", 1.0 / 0.24)] {
                local.evaluations += 1;
                local.nontrivial += 1;
                match x.convert(ConvertValue::Number(1.0), ConvertUnit::Key(from), ConvertTo::Unit(ConvertUnit::Key(to))) {
                    Ok((ConvertValue::Number(got), _)) if close(got, expect, 1e-9, 1e-300) => {}
                    other => out.push(Violation::new("conversion differs from the unit definitions of the layers", format!("bundled + `cup = {{ ratio = 0.25 }}` + `c = {{ ratio = 0.24 }}`: 1 {from} -> {to} gave {other:?}, the later layer gives {expect}"), json!({"kind": "two extends"}))),
                }
            }
            out
        });
        if c.has_violations() {
            return;
        }
    } else {
        c.note("the two extend layers could not be built; that part was skipped");
    }
    // the same keys on two converters that disagree about them, alternately
    if let Some(b) = reratio_converter() {
        let a = Converter::bundled();
        sweep("C09 alternating lookups of every key on two converters with the same keys and different ratios", 1, |_| json!({"kind": "alternation"}), move |_, local| {
            let mut out = Vec::new();
            check_alternation(&a, &b, &mut out, local);
            local.nontrivial += 1;
            out
        });
        if c.has_violations() {
            return;
        }
    } else {
        c.note("the extend-only layer could not be built; the alternation part was skipped");
    }
    let e = env.clone();
    sweep("C09 failure matrix and ScaledRecipe::convert", 2, |i| json!({"kind": if i == 0 { "failure matrix" } else { "recipes" }}), |idx, local| {
        let mut out = Vec::new();
        if idx == 0 {
            check_failures(&e, &mut out, local);
        } else {
            check_recipes(&mut out, local);
        }
        local.nontrivial += 1;
        out
    });
    c.sample(json!({"pair": "1 cup -> ml", "result": format!("{:?}", env.conv.convert(ConvertValue::Number(1.0), ConvertUnit::Key("cup"), ConvertTo::Unit(ConvertUnit::Key("ml"))).map(|r| r.0))}));
    let mut q1: ScaledQuantity = Quantity::new(Value::Number(Number::Regular(1500.0)), Some("ml".into()));
    let _ = q1.fit(&env.conv);
    c.sample(json!({"quantity": "1500 ml fit", "result": q1.to_string()}));
    let mut q2: ScaledQuantity = Quantity::new(Value::Number(Number::Regular(0.5)), Some("cup".into()));
    let _ = q2.convert(System::Metric, &env.conv);
    c.sample(json!({"quantity": "0.5 cup -> metric", "result": q2.to_string()}));
    c.assume("units.toml is rounded to nine decimals, so the implementation may differ from the exact definitions by up to 1.2e-7; the comparison tolerance against the definitions is 1e-6, internal agreement 1e-9");
}

pub fn replay(case: &J) -> Vec<Violation> {
    let env = build_env();
    let mut out = Vec::new();
    let mut local = crate::common::Local::for_replay();
    let find = |sym: &str| env.units.iter().position(|u| u.symbol() == sym);
    let num = |j: &J| j.as_str().and_then(|s| s.parse::<f64>().ok()).or(j.as_f64()).unwrap_or(1.0);
    match case["kind"].as_str().unwrap_or("") {
        "pair" => {
            if let (Some(i), Some(j)) = (find(case["from"].as_str().unwrap_or("")), find(case["to"].as_str().unwrap_or(""))) {
                if env.units[i].physical_quantity == env.units[j].physical_quantity {
                    check_pair(&env, i, j, num(&case["value"]), &mut out, &mut local);
                } else if env.conv.convert(ConvertValue::Number(1.0), ConvertUnit::Unit(&env.units[i]), ConvertTo::Unit(ConvertUnit::Unit(&env.units[j]))).is_ok() {
                    out.push(Violation::new("cross-quantity conversion succeeded", "", case.clone()));
                }
            }
        }
        "quantity (imperial default layer)" => {
            if let (Some(x), Ok(val)) = (imperial_default_converter(), serde_json::from_value::<Value>(case["value_json"].clone())) {
                let e2 = build_env_with(x);
                if let Some(i) = e2.units.iter().position(|u| Some(u.symbol()) == case["unit"].as_str()) {
                    check_quantity_ops(&e2, i, &val, &mut out, &mut local);
                    let op = case["op"].as_str().unwrap_or("");
                    out.retain(|v| v.case["op"] == op);
                }
            }
        }
        "two extends" => {
            if let Some(x) = two_extends_converter() {
                for (from, to, expect) in [("cup", "ml", 240.0), ("c", "l", 0.24), ("lb", "g", 500.0)] {
                    match x.convert(ConvertValue::Number(1.0), ConvertUnit::Key(from), ConvertTo::Unit(ConvertUnit::Key(to))) {
                        Ok((ConvertValue::Number(got), _)) if close(got, expect, 1e-9, 1e-300) => {}
                        other => out.push(Violation::new("conversion differs from the unit definitions of the layers", format!("1 {from} -> {to} gave {other:?}, expected {expect}"), case.clone())),
                    }
                }
            }
        }
        "alternation" => {
            if let Some(b) = reratio_converter() {
                check_alternation(&Converter::bundled(), &b, &mut out, &mut local);
            }
        }
        "pair (extra units layer)" => {
            if let Some(x) = extra_units_converter() {
                let e2 = build_env_with(x);
                let pos = |sym: &str| e2.units.iter().position(|u| u.symbol() == sym);
                if let (Some(i), Some(j)) = (pos(case["from"].as_str().unwrap_or("")), pos(case["to"].as_str().unwrap_or(""))) {
                    check_pair(&e2, i, j, num(&case["value"]), &mut out, &mut local);
                    for k in 0..e2.units.len() {
                        if e2.units[k].physical_quantity == e2.units[i].physical_quantity {
                            check_triple(&e2, i, k, j, num(&case["value"]), &mut out, &mut local);
                        }
                    }
                }
            }
        }
        "pair (spanish layer)" => {
            if let Some(sp) = spanish_converter() {
                let e2 = build_env_with(sp);
                // `from` may be any key of the unit (the key check) or its symbol
                let from = case["from"].as_str().unwrap_or("");
                let i = e2.units.iter().position(|u| u.symbol() == from).or_else(|| e2.conv.find_unit(from).and_then(|f| e2.units.iter().position(|u| u.symbol() == f.symbol())));
                let j = e2.units.iter().position(|u| u.symbol() == case["to"].as_str().unwrap_or(""));
                if let (Some(i), Some(j)) = (i, j) {
                    if e2.units[i].physical_quantity == e2.units[j].physical_quantity {
                        check_pair(&e2, i, j, num(&case["value"]), &mut out, &mut local);
                        for key in keys(&e2.units[i]) {
                            let r = e2.conv.convert(ConvertValue::Number(1.0), ConvertUnit::Key(&key), ConvertTo::Unit(ConvertUnit::Unit(&e2.units[j])));
                            let d = e2.conv.convert(ConvertValue::Number(1.0), ConvertUnit::Unit(&e2.units[i]), ConvertTo::Unit(ConvertUnit::Unit(&e2.units[j])));
                            if format!("{:?}", r.map(|x| x.0)) != format!("{:?}", d.map(|x| x.0)) {
                                out.push(Violation::new("a key of a unit converts differently from the unit", format!("key {key:?}"), case.clone()));
                            }
                        }
                    }
                }
            }
        }
        "triple" => {
            if let (Some(a), Some(b), Some(c)) = (find(case["from"].as_str().unwrap_or("")), find(case["via"].as_str().unwrap_or("")), find(case["to"].as_str().unwrap_or(""))) {
                check_triple(&env, a, b, c, num(&case["value"]), &mut out, &mut local);
            }
        }
        "quantity" => {
            if let (Some(i), Ok(val)) = (find(case["unit"].as_str().unwrap_or("")), serde_json::from_value::<Value>(case["value_json"].clone())) {
                check_quantity_ops(&env, i, &val, &mut out, &mut local);
                let op = case["op"].as_str().unwrap_or("");
                out.retain(|v| v.case["op"] == op);
            }
        }
        "failure" => {
            check_failures(&env, &mut out, &mut local);
            out.retain(|v| v.case == *case);
        }
        _ => {
            check_recipes(&mut out, &mut local);
            out.retain(|v| v.case == *case);
        }
    }
    out
}
