//! C02: core-syntax recipes parse identically under every extension subset

use crate::common::*;
use crate::e2::*;
use crate::gen::*;
use crate::oracles::exact_image;
use crate::strings::{a_tok, all_extension_subsets};
use cooklang::quantity::{ScalableValue, Value};
use cooklang::{Content, Converter, CooklangParser, Extensions, IngredientReferenceTarget, Item as RItem, Modifiers};
use serde_json::{json, Value as J};
use std::sync::Arc;

/// Independent syntactic classifier: true when the string is free of every
/// construct the extensions document as reinterpreted. It rejects a superset,
/// which only shrinks the explored set.
pub fn is_core_only(s: &str) -> bool {
    if s.contains('|') || s.contains('\\') {
        return false;
    }
    if s.contains(">>") && s.contains('[') {
        return false;
    }
    let b: Vec<char> = s.chars().collect();
    for (i, c) in b.iter().enumerate() {
        if matches!(c, '@' | '#' | '~') {
            if let Some(n) = b.get(i + 1) {
                if matches!(n, '@' | '&' | '?' | '+' | '-') {
                    return false;
                }
            }
        }
    }
    // timers: only `~{1%min}` or `~name{1%min}` with a simple name
    let mut rest = s;
    while let Some(p) = rest.find('~') {
        let after = &rest[p + 1..];
        let ok = ["", "a", "é", "b c", "min", "C", "aa"].iter().any(|n| after.starts_with(&format!("{n}{{1%min}}")));
        if !ok {
            return false;
        }
        rest = after;
    }
    // brace content
    let mut rest = s;
    while let Some(p) = rest.find('{') {
        let after = &rest[p + 1..];
        let end = after.find('}').unwrap_or(after.len());
        let content = &after[..end];
        if content.contains('-') {
            return false;
        }
        if !content.contains('%') && content.trim().contains(|c: char| c.is_whitespace()) {
            return false;
        }
        rest = &after[end..];
    }
    // number followed by a known unit in text
    let stripped = s.replace("{1%min}", "");
    if stripped.contains(|c: char| c.is_ascii_digit()) && (stripped.contains("min") || stripped.contains('C')) {
        return false;
    }
    true
}

pub struct Subsets {
    pub parsers: Vec<CooklangParser>,
}

pub fn subsets() -> Subsets {
    Subsets { parsers: all_extension_subsets().into_iter().map(|e| CooklangParser::new(e, Converter::bundled())).collect() }
}

/// what the property fixes across subsets: the recipe, validity and the absence of errors
/// (warnings may legitimately depend on the enabled extensions, e.g. a hint about a line an extension would read)
fn recipe_and_errors(r: &cooklang::RecipeResult) -> String {
    let rec = r.output().map(|o| serde_json::to_string(o).unwrap_or_else(|_| format!("{o:?}")));
    let errors: Vec<String> = r.report().iter().filter(|d| d.severity == cooklang::error::Severity::Error).map(|d| format!("{:?} {:?} labels={:?}", d.stage, d.message, d.labels)).collect();
    format!("valid={} recipe={:?} errors={:?}", r.is_valid(), rec, errors)
}

/// Part A: identical result under all 192 subsets
pub fn differential(s: &str, subs: &Subsets, local: &mut Local) -> Vec<Violation> {
    let base = subs.parsers[0].parse(s); // the empty set comes first
    local.evaluations += 1;
    if base.report().has_errors() || !base.has_output() {
        return vec![];
    }
    let want = recipe_and_errors(&base);
    for p in &subs.parsers[1..] {
        local.evaluations += 1;
        let r = p.parse(s);
        let got = recipe_and_errors(&r);
        if got != want {
            return vec![Violation::new(
                "core-syntax recipe parses differently under an extension subset",
                format!("{s:?}: with no extensions {want}; with {:?} {got}", p.extensions()),
                json!({"kind": "differential", "input": s, "ext_bits": p.extensions().bits()}),
            )];
        }
    }
    local.nontrivial += 1;
    vec![]
}

fn core_only_model(r: &Recipe) -> bool {
    for b in &r.blocks {
        if let Block::Step(items) = b {
            for it in items {
                match it {
                    Item::InlineQ(..) => return false,
                    Item::Comp(c) => {
                        if c.kind == Kind::Tm {
                            match &c.qty {
                                None => return false,
                                Some(q) => {
                                    if matches!(q.val, Val::Text(_)) {
                                        return false;
                                    }
                                }
                            }
                        }
                        if let Some(q) = &c.qty {
                            if q.unit.is_none() && matches!(q.val, Val::Text(t) if t.chars().next().map(|c| c.is_ascii_digit()).unwrap_or(false)) {
                                return false;
                            }
                        }
                    }
                    _ => {}
                }
            }
        }
    }
    true
}

// ---------------------------------------------------------------------------
// Part B: with an extension off its syntax reads as core text

const M: u32 = 1 << 1;
const A: u32 = 1 << 3;
const U: u32 = 1 << 5;
const MODES: u32 = 1 << 6;
const INL: u32 = 1 << 7;
const R: u32 = 1 << 9;
const T: u32 = 1 << 10;
const I: u32 = 1 << 11;

type Oracle = fn(&cooklang::ScalableRecipe) -> Result<(), String>;

fn qty_of(r: &cooklang::ScalableRecipe, i: usize) -> Option<(Value, Option<String>)> {
    r.ingredients.get(i)?.quantity.as_ref().map(|q| {
        let v = match q.value() {
            ScalableValue::Fixed(v) | ScalableValue::Linear(v) => v.clone(),
        };
        (v, q.unit().map(|s| s.to_string()))
    })
}

fn catalogue() -> Vec<(&'static str, &'static str, u32, Oracle)> {
    vec![
        ("alias", "Add @white wine|wine{} now\n", A, |r| {
            let i = r.ingredients.first().ok_or("no ingredient")?;
            if i.name != "white wine|wine" || i.alias.is_some() {
                return Err(format!("name {:?} alias {:?}, expected the `|` to stay in the name", i.name, i.alias));
            }
            Ok(())
        }),
        ("alias on cookware", "#big pot|pot{}\n", A, |r| {
            let i = r.cookware.first().ok_or("no cookware")?;
            if i.name != "big pot|pot" || i.alias.is_some() {
                return Err(format!("name {:?} alias {:?}", i.name, i.alias));
            }
            Ok(())
        }),
        ("alias separator in a timer name", "Boil ~soft|hard egg{6%min} now\n", A, |r| {
            let t = r.timers.first().ok_or("no timer")?;
            if t.name.as_deref() != Some("soft|hard egg") {
                return Err(format!("timer {t:?}, expected the `|` to stay in the name"));
            }
            Ok(())
        }),
        ("range", "@eggs{2-4}\n", R, |r| match qty_of(r, 0) {
            Some((Value::Text(t), None)) if t == "2-4" => Ok(()),
            other => Err(format!("quantity {other:?}, expected the text value \"2-4\"")),
        }),
        ("range with unit", "@sauce{200-300%ml}\n", R, |r| match qty_of(r, 0) {
            Some((Value::Text(t), Some(u))) if t == "200-300" && u == "ml" => Ok(()),
            other => Err(format!("quantity {other:?}, expected text \"200-300\" with unit ml")),
        }),
        ("range without %", "@flour{2-3 cups}\n", R, |r| match qty_of(r, 0) {
            Some((Value::Text(t), None)) if t == "2-3 cups" => Ok(()),
            other => Err(format!("quantity {other:?}, expected the text value \"2-3 cups\" without unit")),
        }),
        ("unit without %", "@water{1 L}\n", U, |r| match qty_of(r, 0) {
            Some((Value::Text(t), None)) if t == "1 L" => Ok(()),
            other => Err(format!("quantity {other:?}, expected the text value \"1 L\" without unit")),
        }),
        ("unit without %, fraction", "@flour{1 1/2 cups}\n", U, |r| match qty_of(r, 0) {
            Some((Value::Text(t), None)) if t == "1 1/2 cups" => Ok(()),
            other => Err(format!("quantity {other:?}, expected a text value")),
        }),
        ("unit without %, after a cookware item with an amount in the same step", "Heat the #pan{1} and add @flour{1 kg} then @water{2 l}.\n", U, |r| match (qty_of(r, 0), qty_of(r, 1)) {
            (Some((Value::Text(a), None)), Some((Value::Text(b), None))) if a == "1 kg" && b == "2 l" => Ok(()),
            other => Err(format!("quantities {other:?}, expected the text values \"1 kg\" and \"2 l\" without unit")),
        }),
        ("unit without %, after a timer and an ingredient with % in the same step", "Wait ~{5%min} add @salt{1%g} and @flour{1 kg}.\n", U, |r| match qty_of(r, 1) {
            Some((Value::Text(a), None)) if a == "1 kg" => Ok(()),
            other => Err(format!("quantity {other:?}, expected the text value \"1 kg\" without unit")),
        }),
        ("bracketed key", ">> [mode]: text\nAdd @salt{1} now\n", MODES, |r| {
            if r.metadata.map.get("[mode]").and_then(|v| v.as_str()) != Some("text") {
                return Err(format!("metadata {:?}, expected an ordinary entry `[mode]` = text", r.metadata.map));
            }
            if r.ingredients.len() != 1 || !matches!(r.sections.first().and_then(|s| s.content.first()), Some(Content::Step(_))) {
                return Err("the bracketed key changed how the step is read".into());
            }
            Ok(())
        }),
        ("bracketed duplicate key", ">> [duplicate]: ref\n@a{1} @a{2}\n", MODES, |r| {
            if r.metadata.map.get("[duplicate]").and_then(|v| v.as_str()) != Some("ref") {
                return Err(format!("metadata {:?}", r.metadata.map));
            }
            if r.ingredients.len() != 2 || r.ingredients.iter().any(|i| !i.relation.is_definition()) {
                return Err("the bracketed key turned the second ingredient into a reference".into());
            }
            Ok(())
        }),
        ("number and unit in text", "Preheat to 180 C now\n", INL, |r| {
            if !r.inline_quantities.is_empty() {
                return Err(format!("inline quantities {:?}", r.inline_quantities));
            }
            match r.sections.first().and_then(|s| s.content.first()) {
                Some(Content::Step(st)) if st.items.len() == 1 && matches!(&st.items[0], RItem::Text { value } if value == "Preheat to 180 C now") => Ok(()),
                other => Err(format!("step {other:?}, expected one text item")),
            }
        }),
        ("timer without duration", "Let it ~rest now\n", T, |r| {
            let t = r.timers.first().ok_or("no timer")?;
            if t.name.as_deref() != Some("rest") || t.quantity.is_some() {
                return Err(format!("timer {t:?}"));
            }
            Ok(())
        }),
        ("timer with empty braces", "~slow rest{}\n", T, |r| {
            let t = r.timers.first().ok_or("no timer")?;
            if t.name.as_deref() != Some("slow rest") || t.quantity.is_some() {
                return Err(format!("timer {t:?}"));
            }
            Ok(())
        }),
        ("reference modifier", "@a{1} and @&a{}\n", M | I, |r| {
            if r.ingredients.len() != 2 {
                return Err(format!("{} ingredients", r.ingredients.len()));
            }
            let i = &r.ingredients[1];
            if i.name != "&a" || !i.modifiers().is_empty() || !i.relation.is_definition() {
                return Err(format!("second ingredient {:?} modifiers {:?} relation {:?}, expected a definition named \"&a\"", i.name, i.modifiers(), i.relation));
            }
            Ok(())
        }),
        ("hidden modifier", "@-salt{}\n", M | I, |r| {
            let i = r.ingredients.first().ok_or("no ingredient")?;
            if i.name != "-salt" || !i.modifiers().is_empty() {
                return Err(format!("ingredient {:?} modifiers {:?}", i.name, i.modifiers()));
            }
            Ok(())
        }),
        ("optional modifier on cookware", "#?pan{}\n", M | I, |r| {
            let i = r.cookware.first().ok_or("no cookware")?;
            if i.name != "?pan" || !i.modifiers().is_empty() {
                return Err(format!("cookware {:?} modifiers {:?}", i.name, i.modifiers()));
            }
            Ok(())
        }),
        ("new modifier", "@+x{}\n", M | I, |r| {
            let i = r.ingredients.first().ok_or("no ingredient")?;
            if i.name != "+x" || i.modifiers().contains(Modifiers::NEW) {
                return Err(format!("ingredient {:?} modifiers {:?}", i.name, i.modifiers()));
            }
            Ok(())
        }),
        ("intermediate reference", "Mix @a{1}.\n\nRest @&(1)dough{} now\n", I, |r| {
            for i in &r.ingredients {
                if let Some((_, t)) = i.relation.references_to() {
                    if t != IngredientReferenceTarget::Ingredient {
                        return Err(format!("ingredient {:?} references a {t:?}", i.name));
                    }
                }
            }
            Ok(())
        }),
    ]
}

fn check_catalogue(subs: &Subsets, local: &mut Local) -> Vec<Violation> {
    let mut out = Vec::new();
    for (name, src, bits, oracle) in catalogue() {
        for p in &subs.parsers {
            if p.extensions().bits() & bits != 0 {
                continue; // the extension (or one that implies it) is on
            }
            local.evaluations += 1;
            let r = p.parse(src);
            let case = json!({"kind": "catalogue", "entry": name, "input": src, "ext_bits": p.extensions().bits()});
            // an intermediate reference without the extension may legitimately be a dangling reference
            let errors_ok = name == "intermediate reference";
            if !errors_ok && r.report().has_errors() {
                out.push(Violation::new(format!("extension syntax does not read as core text with the extension off: {name}"), format!("{src:?} with {:?}: errors {:?}", p.extensions(), crate::oracles::diag_summary(r.report())), case));
                break;
            }
            let Some(o) = r.output() else {
                if errors_ok {
                    continue;
                }
                out.push(Violation::new(format!("extension syntax does not read as core text with the extension off: {name}"), format!("{src:?} with {:?}: no output", p.extensions()), case));
                break;
            };
            if let Err(e) = oracle(o) {
                out.push(Violation::new(format!("extension syntax does not read as core text with the extension off: {name}"), format!("{src:?} with {:?}: {e}", p.extensions()), case));
                break;
            }
            // a bracketed key is plain metadata for the metadata-only entry point as well
            if name.starts_with("bracketed") {
                let m = p.parse_metadata(src);
                let same = m.output().map(|m| m.map == o.metadata.map).unwrap_or(false);
                if !same || m.report().has_errors() {
                    out.push(Violation::new(format!("extension syntax does not read as core text with the extension off: {name} (parse_metadata)"), format!("{src:?} with {:?}: parse_metadata gives {:?}, parse gives {:?}", p.extensions(), m.output().map(|m| &m.map), o.metadata.map), case));
                    break;
                }
            }
            local.nontrivial += 1;
        }
    }
    out
}

pub fn replay(case: &J) -> Vec<Violation> {
    let subs = subsets();
    let mut local = Local::for_replay();
    match case["kind"].as_str().unwrap_or("") {
        "catalogue" => check_catalogue(&subs, &mut local).into_iter().filter(|v| v.case["entry"] == case["entry"]).collect(),
        "differential-converter" => {
            let input = case["input"].as_str().unwrap_or("");
            let conv = if case["converter"].as_str().unwrap_or("").starts_with("empty") {
                Converter::empty()
            } else {
                let layer: Option<cooklang::convert::UnitsFile> = toml::from_str("[extend]\nprecedence = \"override\"\n[extend.units]\nmin = { aliases = [\"mn\"] }\ncup = { symbols = [\"cp\"] }\n").ok();
                layer.and_then(|l| cooklang::convert::ConverterBuilder::new().with_units_file(cooklang::convert::UnitsFile::bundled()).ok()?.with_units_file(l).ok()?.finish().ok()).unwrap_or_else(Converter::bundled)
            };
            let _ = CooklangParser::new(cooklang::Extensions::all(), Converter::bundled()).parse(input);
            let sb = Subsets { parsers: all_extension_subsets().into_iter().map(|e| CooklangParser::new(e, conv.clone())).collect() };
            differential(input, &sb, &mut local)
        }
        _ => differential(case["input"].as_str().unwrap_or(""), &subs, &mut local),
    }
}

pub fn run(tier: Tier) {
    let c = ctx();
    c.set_rule("Part A (differential): (i) every core-only canonical model recipe (L1 x 4 contexts, L2 pairs and triples, L3 block sequences) in every spelling with <= d deviations, (ii) every token-alphabet string up to n symbols that an independent syntactic classifier accepts as free of reinterpreted constructs and that parses without error with no extensions: the result (recipe JSON, validity, error diagnostics; warnings are not compared) must be identical under all 192 extension subsets (bundled units); (iii) plain text of numbers, blanks and unit-like words under the empty converter and under a layered converter whose override layer dropped keys, each string parsed once by a bundled parser first; Part B (catalogue): 18 sources using one extension's syntax, under every subset lacking that extension, must read as the core text the documentation describes; non-trivial = recipes / strings compared under all subsets; distinct = distinct sources");
    let subs = Arc::new(subsets());
    let cfg = Config { extended: false };
    // (i) model recipes
    let comps = Arc::new(l1_components(cfg));
    let total = comps.len() as u64 * L1_CONTEXTS as u64;
    let dev = tier.pick(1, 2);
    let (cm, sb) = (comps.clone(), subs.clone());
    let model_run = move |r: &Recipe, dev: usize, local: &mut Local, sb: &Subsets| -> Vec<Violation> {
        if !core_only_model(r) || expected(r, cfg).is_err() {
            local.outcome("not a core-only well-formed recipe (skipped)");
            return vec![];
        }
        let mut out = Vec::new();
        for_each_spelling(r, cfg, dev, true, &mut |p, _| {
            let v = differential(&p.src, sb, local);
            if v.is_empty() {
                true
            } else {
                out.extend(v);
                false
            }
        });
        out
    };
    let mr = model_run.clone();
    sweep(&format!("C02 A(i) L1: {} canonical component shapes x {L1_CONTEXTS} contexts x spellings (<= {dev} deviations) x 192 subsets", comps.len()), total, {
        let cm = comps.clone();
        move |i| json!({"kind": "model", "component": format!("{:?}", cm[(i / L1_CONTEXTS as u64) as usize])})
    }, move |idx, local| mr(&l1_recipe(&cm[(idx / L1_CONTEXTS as u64) as usize], (idx % L1_CONTEXTS as u64) as usize), dev, local, &sb));
    if c.has_violations() {
        return;
    }
    let alpha = Arc::new(l2_alphabet(cfg));
    let k = alpha.len() as u64;
    let (al, sb, mr) = (alpha.clone(), subs.clone(), model_run.clone());
    sweep(&format!("C02 A(i) L2: sequences of 2..=3 of {k} components x 2 layouts x 192 subsets"), count_seq(k, 2, 3) * 2, |i| json!({"kind": "model", "index": i}), move |idx, local| {
        mr(&l2_recipe(&al, &decode_seq(idx / 2, k, 2, 3), (idx % 2) as usize), 0, local, &sb)
    });
    if c.has_violations() {
        return;
    }
    let blocks = Arc::new(l3_alphabet(cfg));
    let k = blocks.len() as u64;
    let len = tier.pick(3, 4);
    let (bl, sb, mr) = (blocks.clone(), subs.clone(), model_run.clone());
    sweep(&format!("C02 A(i) L3: sequences of 1..={len} of {k} blocks x 192 subsets"), count_seq(k, 1, len), |i| json!({"kind": "model", "index": i}), move |idx, local| match l3_recipe(&bl, &decode_seq(idx, k, 1, len)) {
        Some(r) => mr(&r, tier.pick(0, 1), local, &sb),
        None => vec![],
    });
    if c.has_violations() {
        return;
    }
    // (ii) token strings
    let tok = Arc::new(a_tok());
    c.part(json!({"alphabet": tok.name, "symbols": tok.syms}));
    let n = tier.pick(3, 4);
    let total = tok.count_upto(n);
    let (tk, sb) = (tok.clone(), subs.clone());
    sweep(&format!("C02 A(ii): A_tok strings of 0..={n} symbols accepted by the classifier x 192 subsets"), total, {
        let tk = tok.clone();
        move |idx| {
            let mut seq = Vec::new();
            let mut s = String::new();
            tk.decode_upto(idx, n, &mut seq);
            tk.concat(&seq, &mut s);
            json!({"kind": "differential", "input": s})
        }
    }, move |idx, local| {
        let mut seq = Vec::new();
        let mut s = String::new();
        tk.decode_upto(idx, n, &mut seq);
        tk.concat(&seq, &mut s);
        if !tk.is_canonical(&seq, &s) {
            return vec![];
        }
        if !is_core_only(&s) {
            local.outcome("rejected by the classifier (uses reinterpreted syntax)");
            return vec![];
        }
        if idx % 100003 == 77 {
            ctx().sample(json!({"core-only string": s}));
        }
        differential(&s, &sb, local)
    });
    if c.has_violations() {
        return;
    }
    // numbers in step text next to every kind of blank (the inline-quantity scanner walks this text)
    let txt = Arc::new(crate::strings::Alphabet::new("A_text_numbers", &["2", "1/2", "a", "x", " ", "\u{a0}", "\u{2009}", "\t", ".", "é", "\n", "°"]));
    c.part(json!({"alphabet": txt.name, "symbols": txt.syms}));
    let nt = tier.pick(4, 5);
    let (tx, sb) = (txt.clone(), subs.clone());
    sweep(&format!("C02 A(ii): A_text_numbers strings of 0..={nt} symbols accepted by the classifier x 192 subsets"), txt.count_upto(nt), {
        let tx = txt.clone();
        move |idx| {
            let mut seq = Vec::new();
            let mut s = String::new();
            tx.decode_upto(idx, nt, &mut seq);
            tx.concat(&seq, &mut s);
            json!({"kind": "differential", "input": s})
        }
    }, move |idx, local| {
        let mut seq = Vec::new();
        let mut s = String::new();
        tx.decode_upto(idx, nt, &mut seq);
        tx.concat(&seq, &mut s);
        if !tx.is_canonical(&seq, &s) || !is_core_only(&s) {
            return vec![];
        }
        differential(&s, &sb, local)
    });
    if c.has_violations() {
        return;
    }
    // other converters: what counts as "a number and a known unit" depends on the parser's own converter.
    // Plain text over numbers, blanks and unit-like words, under the empty converter and under a layered one
    // whose override layer dropped some keys, each string first parsed once by the bundled all-extensions parser
    // (which knows all the words) in the same process.
    {
        let layer: Option<cooklang::convert::UnitsFile> = toml::from_str("[extend]\nprecedence = \"override\"\n[extend.units]\nmin = { aliases = [\"mn\"] }\ncup = { symbols = [\"cp\"] }\n").ok();
        let layered = layer.and_then(|l| cooklang::convert::ConverterBuilder::new().with_units_file(cooklang::convert::UnitsFile::bundled()).ok()?.with_units_file(l).ok()?.finish().ok());
        let mut convs: Vec<(&'static str, Converter)> = vec![("empty converter", Converter::empty())];
        match layered {
            Some(l) => convs.push(("bundled units + an override layer that drops the keys `mins` and `c`", l)),
            None => c.note("the override layer could not be built; that converter is not part of this run"),
        }
        let words = Arc::new(crate::strings::Alphabet::new("A_text_units", &["2", "1/2", "g", "C", "min", "mins", "c", "cup", " ", "\u{a0}", "a", "\n"]));
        c.part(json!({"alphabet": words.name, "symbols": words.syms}));
        let nw = tier.pick(4, 5);
        let warm = Arc::new(CooklangParser::new(cooklang::Extensions::all(), Converter::bundled()));
        for (cname, conv) in convs {
            let known: Arc<std::collections::BTreeSet<String>> = Arc::new(conv.all_units().flat_map(|u| u.names.iter().chain(&u.symbols).chain(&u.aliases).map(|k| k.to_string()).collect::<Vec<_>>()).collect());
            let sb = Arc::new(Subsets { parsers: all_extension_subsets().into_iter().map(|e| CooklangParser::new(e, conv.clone())).collect() });
            let (wd, wm) = (words.clone(), warm.clone());
            sweep(&format!("C02 A(iii): A_text_units strings of 0..={nw} symbols without a number next to a unit of the {cname} x 192 subsets"), words.count_upto(nw), {
                let wd = words.clone();
                move |idx| {
                    let mut seq = Vec::new();
                    let mut s = String::new();
                    wd.decode_upto(idx, nw, &mut seq);
                    wd.concat(&seq, &mut s);
                    json!({"kind": "differential-converter", "input": s, "converter": cname})
                }
            }, move |idx, local| {
                let mut seq = Vec::new();
                let mut s = String::new();
                wd.decode_upto(idx, nw, &mut seq);
                wd.concat(&seq, &mut s);
                if !wd.is_canonical(&seq, &s) {
                    return vec![];
                }
                // a digit followed (after optional blanks) by a word that is a key of this converter
                let chars: Vec<char> = s.chars().collect();
                let mut number_and_unit = false;
                for i in 0..chars.len() {
                    if chars[i].is_ascii_digit() {
                        let mut j = i + 1;
                        while j < chars.len() && chars[j].is_whitespace() {
                            j += 1;
                        }
                        let word: String = chars[j..].iter().take_while(|ch| !ch.is_whitespace() && !ch.is_ascii_digit() && **ch != '/').collect();
                        if known.contains(&word) {
                            number_and_unit = true;
                        }
                    }
                }
                if number_and_unit {
                    local.outcome("number and a unit of this converter in one text (reinterpreted by INLINE_QUANTITIES, skipped)");
                    return vec![];
                }
                let _ = wm.parse(&s);
                let mut v = differential(&s, &sb, local);
                for x in &mut v {
                    x.case = json!({"kind": "differential-converter", "input": s, "converter": cname});
                    x.detail = format!("({cname}) {}", x.detail);
                }
                v
            });
            if c.has_violations() {
                return;
            }
        }
    }
    // block-level combinations: front matter together with `>>` lines, sections, paragraphs
    let blocks = Arc::new(crate::strings::Alphabet::new(
        "A_blocks_core",
        &["---\n", "k: v\n", ">> a: b\n", ">> c d : e\n", "step @a{1%g}\n", "more #p text\n", "\n", "= s\n", "> p\n", "-- c\n", "~{1%min}\n"],
    ));
    c.part(json!({"alphabet": blocks.name, "symbols": blocks.syms}));
    let nb = tier.pick(5, 6);
    let (bk, sb) = (blocks.clone(), subs.clone());
    sweep(&format!("C02 A(ii): block alphabet strings of 0..={nb} symbols x 192 subsets"), blocks.count_upto(nb), {
        let bk = blocks.clone();
        move |idx| {
            let mut seq = Vec::new();
            let mut s = String::new();
            bk.decode_upto(idx, nb, &mut seq);
            bk.concat(&seq, &mut s);
            json!({"kind": "differential", "input": s})
        }
    }, move |idx, local| {
        let mut seq = Vec::new();
        let mut s = String::new();
        bk.decode_upto(idx, nb, &mut seq);
        bk.concat(&seq, &mut s);
        if !is_core_only(&s) {
            return vec![];
        }
        differential(&s, &sb, local)
    });
    if c.has_violations() {
        return;
    }
    // corpus: the canonical cases
    let sb = subs.clone();
    let canon: Vec<&'static str> = crate::corpus::CORPUS.iter().copied().filter(|s| is_core_only(s)).collect();
    let nc = canon.len() as u64;
    sweep("C02 A(ii): core-only corpus sources x 192 subsets", nc, move |i| json!({"kind": "differential", "index": i}), move |idx, local| differential(canon[idx as usize], &sb, local));
    // Part B
    let sb = subs.clone();
    sweep("C02 B: catalogue of extension syntax under every subset lacking the extension", 1, |_| json!({"kind": "catalogue"}), move |_, local| check_catalogue(&sb, local));
    let ev = c.evaluations.load(std::sync::atomic::Ordering::Relaxed);
    c.states.store(ev, std::sync::atomic::Ordering::Relaxed);
    c.transitions.store(ev, std::sync::atomic::Ordering::Relaxed);
    c.traces_validated.store(ev, std::sync::atomic::Ordering::Relaxed);
    c.sample(json!({"catalogue entry": "@water{1 L}", "expected without ADVANCED_UNITS": "text value \"1 L\", no unit"}));
    c.note("states = (source, extension subset) pairs parsed by the real parser; the model (core-only recipes and the catalogue's expectations) is compared with every one of them");
    c.assume("the bundled converter is used for every subset (with the empty converter ADVANCED_UNITS documents every timer unit as an error)");
}
