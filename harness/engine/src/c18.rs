//! C18: parsing is deterministic, stateless across calls and thread-safe
//!
//! Histories: every sequence of parse calls up to a depth on one shared parser
//! (and on a clone and a new instance) must give, for every call, exactly the
//! result a fresh process gives for that input.
//! Schedules: preemption-bounded exhaustive exploration of the interleavings
//! of real threads sharing one parser, with scheduling points at every token
//! pulled and every event consumed (hook H2).

use crate::common::*;
use crate::oracles::exact_image;
use cooklang::convert::System;
use cooklang::parser::PullParser;
use cooklang::{Converter, CooklangParser, Extensions};
use serde_json::{json, Value as J};
use std::cell::Cell;
use std::sync::{Arc, Condvar, Mutex};

pub const INPUTS: [&str; 9] = [
    "---\ntitle: T\ntime: 1 hour\nprep time: 5 min\n---\nMix @a{1%kg}.\n",
    // (the last entry: an unsupported value that consists of two text fragments)
    ">> time: 10\n>> prep time: 5\n>> cook time: 3\n>> servings: a [- c -] b\nstep\n",
    ">> [mode]: components\n@a{1}\n>> [mode]: steps\nUse @a and @&a{2}.\n>> [duplicate]: ref\n",
    "Mix @flour{200%g} and #bowl.\n\nRest @&(~1)dough{} and @&flour{100%g} in #&bowl ~{1%h}.\n",
    ">> k: v\n@a{1/0} @|{}\n\nmore @b{2}\n",
    // 45 bytes, no final newline, ends with a dash: in the reused buffer the byte behind it is the `-` that input 0 left there
    "Bake at 180 C for 20 min or 350 F, and rest -",
    // same byte length as input 0 (parsed from the same reused buffer, i.e. same address and length) and recipe references
    "@milk{1 1/2%cup} @&milk{0.33%cup} @@abc{} @@abcd{} @@abcde{}\n",
    "= A\n> note é\n\nStep ~t{5%min}(x)\n== B ==\n@é{1}\n",
    ">> prep time: 5\n>> cook time: 3\n>> time: 10\n>> tags: a, b\nstep @x{1} @&x{2}\n",
];

pub const CFGS: usize = 3;

fn parser_for(cfg: usize) -> CooklangParser {
    match cfg {
        0 => CooklangParser::new(Extensions::all(), Converter::bundled()),
        1 => CooklangParser::canonical(),
        _ => {
            // bundled units with the minute unit renamed: a second converter that disagrees with the first
            use cooklang::convert::{ConverterBuilder, UnitsFile};
            let layer: UnitsFile = toml::from_str("[extend]\nprecedence = \"override\"\n[extend.units]\nmin = { names = [\"minuto\"], symbols = [\"mn\"], aliases = [] }\n[[quantity]]\nquantity = \"time\"\nbest = [\"s\", \"h\", \"mn\", \"d\"]\n").expect("layer parses");
            let conv = ConverterBuilder::new().with_units_file(UnitsFile::bundled()).and_then(|b| b.with_units_file(layer)).and_then(|b| b.finish()).unwrap_or_else(|_| Converter::bundled());
            CooklangParser::new(Extensions::all(), conv)
        }
    }
}

/// number of calls in the alphabet: every input x {parse, parse_metadata, parse + scale + convert, parse with callbacks,
/// parse_metadata whose validator callback re-enters the same parser with a full parse}
pub const KINDS: usize = 5;
pub const CALLS: usize = INPUTS.len() * KINDS;

/// what one call observes. Calls are kept separate (not bundled into one
/// observation) so that state leaking from one kind of call into the next is
/// not hidden by happening identically in the reference.
pub fn observe(p: &CooklangParser, call: usize) -> String {
    let original = INPUTS[call / KINDS];
    // every call parses from the same per-thread buffer, as a program reading files into one String would:
    // consecutive inputs then sit at the same address (and inputs 0 and 6 also have the same length)
    BUF.with(|b| {
        let mut b = b.borrow_mut();
        if b.capacity() < 4096 {
            b.reserve(4096);
        }
        b.clear();
        b.push_str(original);
        observe_text(p, call, &b, original)
    })
}

thread_local! {
    static BUF: std::cell::RefCell<String> = const { std::cell::RefCell::new(String::new()) };
}

fn observe_text(p: &CooklangParser, call: usize, input: &str, original: &'static str) -> String {
    match call % KINDS {
        3 => exact_image(&crate::oracles::parse_with_callbacks(p, input)),
        4 => {
            // re-entrancy: a full parse of the same input from inside the metadata validator of a metadata-only parse
            let nested: std::cell::RefCell<Option<String>> = std::cell::RefCell::new(None);
            let opts = cooklang::ParseOptions {
                recipe_ref_check: None,
                metadata_validator: Some(Box::new(|_k: &serde_yaml::Value, _v: &serde_yaml::Value, _o: &mut cooklang::analysis::CheckOptions| {
                    let mut n = nested.borrow_mut();
                    if n.is_none() {
                        *n = Some(exact_image(&p.parse(original)));
                    }
                    cooklang::analysis::CheckResult::Ok
                })),
            };
            let m = p.parse_metadata_with_options(input, opts);
            let meta = format!("meta={:?} {:?}", m.output().map(|m| serde_json::to_string(m).unwrap_or_default()), m.report().iter().map(|d| format!("{:?}/{:?} {:?} labels={:?} hints={:?}", d.severity, d.stage, d.message, d.labels, d.hints)).collect::<Vec<_>>());
            drop(m);
            let n = nested.borrow().clone().unwrap_or_else(|| "<validator not called>".to_string());
            format!("nested={n}\u{1}{meta}")
        }
        0 => exact_image(&p.parse(input)),
        1 => {
            let m = p.parse_metadata(input);
            format!("meta={:?} {:?}", m.output().map(|m| serde_json::to_string(m).unwrap_or_default()), m.report().iter().map(|d| format!("{:?}/{:?} {:?} labels={:?} hints={:?}", d.severity, d.stage, d.message, d.labels, d.hints)).collect::<Vec<_>>())
        }
        _ => match p
            .parse_with_options(
                input,
                cooklang::ParseOptions {
                    // answers differently from the check of call kind 3 for every name, and first follows the
                    // reference the way an application that loads referenced recipes would: 17 parses deep
                    recipe_ref_check: Some(Box::new(|name: &str| match { if name == "abc" { nested_reference(p, 1); } name.len() % 3 } {
                        0 => cooklang::analysis::CheckResult::Ok,
                        1 => cooklang::analysis::CheckResult::Error(vec!["not here".into()]),
                        _ => cooklang::analysis::CheckResult::Warning(vec!["perhaps".into()]),
                    })),
                    metadata_validator: None,
                },
            )
            .into_output()
        {
            Some(o) => {
                let mut sc = o.scale(1.5, p.converter());
                let errs = sc.convert(System::Imperial, p.converter()).len();
                format!("scaled+imperial({errs} errors)={}", serde_json::to_string(&sc).unwrap_or_default())
            }
            None => "no output".to_string(),
        },
    }
}

/// a chain of recipes that reference each other, followed to depth 17 from inside the reference check
fn nested_reference(p: &CooklangParser, depth: usize) {
    if depth >= 18 {
        return;
    }
    let _ = p.parse_with_options(
        "@@a",
        cooklang::ParseOptions {
            recipe_ref_check: Some(Box::new(move |_: &str| {
                nested_reference(p, depth + 1);
                cooklang::analysis::CheckResult::Ok
            })),
            metadata_validator: None,
        },
    );
}

/// entry point of the fresh subprocess: `engine c18-fresh <cfg> <call>`
pub fn fresh_main(cfg: usize, call: usize) {
    let p = parser_for(cfg);
    print!("{}", observe(&p, call));
}

fn fresh_reference() -> Result<Vec<Vec<String>>, String> {
    let exe = std::env::current_exe().map_err(|e| e.to_string())?;
    let mut out = vec![vec![String::new(); CALLS]; CFGS];
    let mut handles = Vec::new();
    for cfg in 0..CFGS {
        for i in 0..CALLS {
            let exe = exe.clone();
            handles.push((cfg, i, std::thread::spawn(move || std::process::Command::new(exe).args(["c18-fresh", &cfg.to_string(), &i.to_string()]).output())));
        }
    }
    for (cfg, i, h) in handles {
        let o = h.join().map_err(|_| "join".to_string())?.map_err(|e| e.to_string())?;
        if !o.status.success() {
            // the code under test failed on its very first call in a new process: a result, not a machinery problem
            let err = String::from_utf8_lossy(&o.stderr);
            let last = err.lines().rev().find(|l| !l.trim().is_empty()).unwrap_or("").chars().take(300).collect::<String>();
            out[cfg][i] = format!("FRESH PROCESS FAILED (exit {:?}): {last}", o.status.code());
            continue;
        }
        out[cfg][i] = String::from_utf8_lossy(&o.stdout).into_owned();
    }
    Ok(out)
}

fn diff_pos(a: &str, b: &str) -> String {
    let p = a.bytes().zip(b.bytes()).position(|(x, y)| x != y).unwrap_or(a.len().min(b.len()));
    let lo = p.saturating_sub(60);
    let cut = |s: &str| s.chars().skip(lo).take(160).collect::<String>();
    format!("first difference at byte {p}: expected …{}… got …{}…", cut(a), cut(b))
}

// ---------------------------------------------------------------------------
// histories

fn decode_history(mut idx: u64, max_len: u32) -> Vec<usize> {
    let k = CALLS as u64;
    let mut len = 1u32;
    loop {
        let cnt = k.pow(len);
        if idx < cnt || len == max_len {
            break;
        }
        idx -= cnt;
        len += 1;
    }
    let mut v = Vec::new();
    for _ in 0..len {
        v.push((idx % k) as usize);
        idx /= k;
    }
    v.reverse();
    v
}

fn check_history(reference: &[Vec<String>], shared: &[CooklangParser], h: &[usize], local: &mut Local) -> Vec<Violation> {
    let mut out = Vec::new();
    for cfg in 0..CFGS {
        let clone = shared[cfg].clone();
        let fresh = parser_for(cfg);
        // histories of four calls (thorough tier) run on the shared instance only
        let instances: &[(&str, &CooklangParser)] = &[("shared instance", &shared[cfg]), ("clone", &clone), ("new instance", &fresh)];
        let instances = if h.len() > 3 { &instances[..1] } else { instances };
        for &(which, p) in instances {
            for (step, &i) in h.iter().enumerate() {
                local.evaluations += 1;
                let got = observe(p, i);
                if got != reference[cfg][i] {
                    out.push(Violation::new(
                        "result depends on the history of the parser",
                        format!("history {h:?} on the {which} (cfg {cfg}): call {step} (call {i} = input {} kind {}) differs from the fresh-process result; {}", i / KINDS, i % KINDS, diff_pos(&reference[cfg][i], &got)),
                        json!({"kind": "history", "history": h, "cfg": cfg}),
                    ));
                    return out;
                }
            }
        }
    }
    out
}

/// two half-consumed pull parsers interleaved event-wise on one thread
fn check_interleaved_pull(i: usize, j: usize, local: &mut Local) -> Vec<Violation> {
    let ext = Extensions::all();
    let seq_a: Vec<String> = PullParser::new(INPUTS[i], ext).map(|e| format!("{e:?}")).collect();
    let seq_b: Vec<String> = PullParser::new(INPUTS[j], ext).map(|e| format!("{e:?}")).collect();
    let mut a = PullParser::new(INPUTS[i], ext);
    let mut b = PullParser::new(INPUTS[j], ext);
    let (mut ga, mut gb) = (Vec::new(), Vec::new());
    loop {
        let x = a.next();
        let y = b.next();
        if x.is_none() && y.is_none() {
            break;
        }
        if let Some(e) = x {
            ga.push(format!("{e:?}"));
        }
        if let Some(e) = y {
            gb.push(format!("{e:?}"));
        }
    }
    local.evaluations += 1;
    if ga != seq_a || gb != seq_b {
        return vec![Violation::new(
            "interleaved pull parsers disturb each other",
            format!("inputs {i} and {j}: event streams differ from the sequential ones"),
            json!({"kind": "pull", "a": i, "b": j}),
        )];
    }
    vec![]
}

// ---------------------------------------------------------------------------
// schedule explorer (E4)

struct Inner {
    current: usize,
    alive: Vec<bool>,
    started: usize,
    prefix: Vec<usize>,
    pos: usize,
    /// (enabled threads in canonical order, chosen index, thread that was running)
    trace: Vec<(Vec<usize>, usize, usize)>,
    diverged: bool,
}

struct Sched {
    m: Mutex<Inner>,
    cv: Condvar,
}

thread_local! {
    static ME: Cell<usize> = const { Cell::new(usize::MAX) };
}
static SCHED: Mutex<Option<Arc<Sched>>> = Mutex::new(None);

fn decide(g: &mut Inner, me: usize) {
    // canonical order: the running thread first if still enabled, then ascending ids
    let mut enabled: Vec<usize> = Vec::new();
    if g.alive[me] {
        enabled.push(me);
    }
    for t in 0..g.alive.len() {
        if t != me && g.alive[t] {
            enabled.push(t);
        }
    }
    if enabled.is_empty() {
        g.current = usize::MAX;
        return;
    }
    let choice = if g.pos < g.prefix.len() {
        let c = g.prefix[g.pos];
        if c >= enabled.len() {
            g.diverged = true;
            0
        } else {
            c
        }
    } else {
        0
    };
    g.trace.push((enabled.clone(), choice, me));
    g.pos += 1;
    g.current = enabled[choice];
}

fn yield_point(_site: &'static str) {
    let me = ME.with(|m| m.get());
    if me == usize::MAX {
        return;
    }
    let s = SCHED.lock().unwrap().clone().expect("scheduler installed");
    let mut g = s.m.lock().unwrap();
    decide(&mut g, me);
    s.cv.notify_all();
    while g.current != me {
        g = s.cv.wait(g).unwrap();
    }
}

#[derive(Clone, Debug)]
pub struct Harness {
    pub name: &'static str,
    /// per thread: list of input indices
    pub bodies: Vec<Vec<usize>>,
    pub cfg: usize,
    pub bound: usize,
}

struct RunResult {
    outputs: Vec<Vec<String>>,
    trace: Vec<(Vec<usize>, usize, usize)>,
    diverged: bool,
}

fn run_schedule(parser: &Arc<CooklangParser>, bodies: &[Vec<usize>], prefix: &[usize]) -> RunResult {
    let n = bodies.len();
    let s = Arc::new(Sched {
        m: Mutex::new(Inner { current: usize::MAX, alive: vec![true; n], started: 0, prefix: prefix.to_vec(), pos: 0, trace: vec![], diverged: false }),
        cv: Condvar::new(),
    });
    *SCHED.lock().unwrap() = Some(s.clone());
    let mut handles = vec![];
    for (tid, body) in bodies.iter().enumerate() {
        let s = s.clone();
        let parser = parser.clone();
        let body = body.clone();
        handles.push(std::thread::spawn(move || {
            ME.with(|m| m.set(tid));
            {
                let mut g = s.m.lock().unwrap();
                g.started += 1;
                if g.started == g.alive.len() {
                    g.current = 0;
                    s.cv.notify_all();
                }
                while g.current != tid {
                    g = s.cv.wait(g).unwrap();
                }
            }
            let mut outs = vec![];
            for i in body {
                let r = guarded(|| observe(&parser, i));
                outs.push(r.unwrap_or_else(|m| format!("PANIC {m}")));
            }
            let mut g = s.m.lock().unwrap();
            g.alive[tid] = false;
            decide(&mut g, tid);
            s.cv.notify_all();
            ME.with(|m| m.set(usize::MAX));
            outs
        }));
    }
    let outputs: Vec<Vec<String>> = handles.into_iter().map(|h| h.join().unwrap_or_else(|_| vec!["THREAD PANICKED".to_string()])).collect();
    let g = s.m.lock().unwrap();
    RunResult { outputs, trace: g.trace.clone(), diverged: g.diverged }
}

/// iterative context bounding: all schedules with at most `bound` preemptions
fn explore(h: &Harness, reference: &[Vec<String>]) -> (u64, u64, usize, Vec<Violation>) {
    let parser = Arc::new(parser_for(h.cfg));
    let expected: Vec<Vec<String>> = h.bodies.iter().map(|b| b.iter().map(|&i| reference[h.cfg][i].clone()).collect()).collect();
    let mut stack: Vec<Vec<usize>> = vec![vec![]];
    let (mut execs, mut points, mut maxpoints) = (0u64, 0u64, 0usize);
    let mut violations = Vec::new();
    let mut outcomes = std::collections::BTreeSet::new();
    while let Some(prefix) = stack.pop() {
        let r = run_schedule(&parser, &h.bodies, &prefix);
        execs += 1;
        points += r.trace.len() as u64;
        if r.diverged {
            eprintln!("engine: schedule replay diverged for prefix {prefix:?} in harness {}", h.name);
            std::process::exit(2);
        }
        maxpoints = maxpoints.max(r.trace.len());
        outcomes.insert(fx_hash_str(&format!("{:?}", r.outputs)));
        if r.outputs != expected {
            let schedule: Vec<usize> = r.trace.iter().map(|t| t.1).collect();
            // determinism of the harness: the same schedule must give the same observation
            let again = run_schedule(&parser, &h.bodies, &schedule);
            if again.outputs != r.outputs {
                eprintln!("engine: replaying schedule {schedule:?} of harness {} gave different observations: nondeterminism not owned by the scheduler", h.name);
                std::process::exit(2);
            }
            let (t, k) = r
                .outputs
                .iter()
                .zip(&expected)
                .enumerate()
                .find_map(|(t, (o, e))| o.iter().zip(e).position(|(a, b)| a != b).map(|k| (t, k)))
                .unwrap_or((0, 0));
            violations.push(Violation::new(
                "result depends on the thread interleaving",
                format!(
                    "harness {} ({:?}), schedule (thread run at each point) {:?}: thread {t} call {k} differs from the sequential result; {}",
                    h.name,
                    h.bodies,
                    r.trace.iter().map(|x| x.0[x.1]).collect::<Vec<_>>(),
                    diff_pos(&expected[t][k], &r.outputs[t][k])
                ),
                json!({"kind": "schedule", "harness": h.name, "bodies": h.bodies, "cfg": h.cfg, "choices": schedule}),
            ));
            if violations.len() >= 3 {
                break;
            }
        }
        // preemptions used before each point
        let mut pre = vec![0usize; r.trace.len() + 1];
        for (i, (enabled, ch, me)) in r.trace.iter().enumerate() {
            let is_pre = enabled[0] == *me && *ch != 0;
            pre[i + 1] = pre[i] + is_pre as usize;
        }
        for i in prefix.len()..r.trace.len() {
            let (enabled, _ch, me) = &r.trace[i];
            for alt in 1..enabled.len() {
                let cost = pre[i] + (enabled[0] == *me) as usize;
                if cost > h.bound {
                    continue;
                }
                let mut p: Vec<usize> = r.trace[..i].iter().map(|t| t.1).collect();
                p.push(alt);
                stack.push(p);
            }
        }
    }
    ctx().part(json!({"harness": h.name, "threads": h.bodies, "cfg": h.cfg, "preemption_bound": h.bound, "executions": execs, "scheduling_points_total": points, "max_points_in_one_execution": maxpoints, "distinct_observed_outcomes": outcomes.len()}));
    (execs, points, maxpoints, violations)
}

fn harnesses(tier: Tier) -> Vec<Harness> {
    // a call is input * KINDS + kind (0 parse, 1 parse_metadata, 2 parse + scale + convert, 3 parse with callbacks)
    let p = |i: usize| i * KINDS;
    let m = |i: usize| i * KINDS + 1;
    let sc = |i: usize| i * KINDS + 2;
    let mut v = vec![
        Harness { name: "2 threads x 1 parse (references+intermediate | modes)", bodies: vec![vec![p(3)], vec![p(2)]], cfg: 0, bound: 2 },
        Harness { name: "2 threads x 1 parse (front matter | metadata + parse error)", bodies: vec![vec![p(0)], vec![p(4)]], cfg: 0, bound: 2 },
        Harness { name: "2 threads x 1 parse, canonical parser (sections | >> metadata)", bodies: vec![vec![p(7)], vec![p(1)]], cfg: 1, bound: 2 },
        Harness { name: "2 threads x 2 calls (parse, metadata-only | scale+convert, parse)", bodies: vec![vec![p(8), m(1)], vec![sc(6), p(3)]], cfg: 0, bound: 1 },
        Harness { name: "3 threads x 1 call (fractions+scaling | inline | same input)", bodies: vec![vec![sc(6)], vec![p(5)], vec![sc(6)]], cfg: 0, bound: 1 },
    ];
    // every ordered pair of call kinds on two threads, each on a `>>`-metadata input (deprecation hint, time bookkeeping, tags)
    const KIND_NAMES: [&str; KINDS] = ["parse", "parse_metadata", "parse+scale+convert", "parse with callbacks", "parse_metadata re-entering parse"];
    for ka in 0..KINDS {
        for kb in 0..KINDS {
            let name: &'static str = Box::leak(format!("kind pair: {} | {}", KIND_NAMES[ka], KIND_NAMES[kb]).into_boxed_str());
            v.push(Harness { name, bodies: vec![vec![8 * KINDS + ka], vec![1 * KINDS + kb]], cfg: 0, bound: tier.pick(1, 2) });
        }
    }
    if tier == Tier::Thorough {
        v.push(Harness { name: "2 threads x 1 parse, 3 preemptions", bodies: vec![vec![p(3)], vec![p(2)]], cfg: 0, bound: 3 });
        v.push(Harness { name: "2 threads x 2 calls, 2 preemptions", bodies: vec![vec![p(8), m(1)], vec![sc(6), p(3)]], cfg: 0, bound: 2 });
        v.push(Harness { name: "3 threads x 1 parse, 2 preemptions", bodies: vec![vec![p(3)], vec![p(2)], vec![sc(6)]], cfg: 0, bound: 2 });
        v.push(Harness { name: "2 threads same input", bodies: vec![vec![p(3)], vec![p(3)]], cfg: 0, bound: 2 });
    }
    v
}

pub fn replay(case: &J) -> Vec<Violation> {
    let reference = match fresh_reference() {
        Ok(r) => r,
        Err(e) => {
            eprintln!("engine: {e}");
            std::process::exit(2)
        }
    };
    let mut local = Local::for_replay();
    match case["kind"].as_str().unwrap_or("") {
        "history" => {
            let h: Vec<usize> = case["history"].as_array().map(|a| a.iter().filter_map(|x| x.as_u64().map(|x| x as usize)).collect()).unwrap_or_default();
            let shared = [parser_for(0), parser_for(1), parser_for(2)];
            check_history(&reference, &shared, &h, &mut local)
        }
        "fresh" => {
            let (cfg, i) = (case["cfg"].as_u64().unwrap_or(0) as usize, case["call"].as_u64().unwrap_or(0) as usize);
            if reference[cfg][i].starts_with("FRESH PROCESS FAILED") {
                vec![Violation::new("a call fails when it is the first one in a new process", reference[cfg][i].clone(), case.clone())]
            } else {
                vec![]
            }
        }
        "reentrancy" => {
            let (cfg, i) = (case["cfg"].as_u64().unwrap_or(0) as usize, case["input"].as_u64().unwrap_or(0) as usize);
            let nested = reference[cfg][i * KINDS + 4].strip_prefix("nested=").and_then(|s| s.split('\u{1}').next()).unwrap_or("").to_string();
            if nested != "<validator not called>" && nested != reference[cfg][i * KINDS] {
                vec![Violation::new("result depends on being called from inside a callback of the same parser", diff_pos(&reference[cfg][i * KINDS], &nested), case.clone())]
            } else {
                vec![]
            }
        }
        "traced" => {
            let before = ctx().has_violations();
            traced(&reference);
            if !before && ctx().has_violations() {
                vec![Violation::new("result depends on a tracing subscriber being installed", "reproduced".to_string(), case.clone())]
            } else {
                vec![]
            }
        }
        "pull" => check_interleaved_pull(case["a"].as_u64().unwrap_or(0) as usize, case["b"].as_u64().unwrap_or(0) as usize, &mut local),
        "stress" => {
            init_stress_replay();
            vec![]
        }
        "schedule" => {
            cooklang::verif_hooks::set_yield(Some(yield_point));
            let bodies: Vec<Vec<usize>> = case["bodies"].as_array().map(|a| a.iter().map(|b| b.as_array().map(|b| b.iter().filter_map(|x| x.as_u64().map(|x| x as usize)).collect()).unwrap_or_default()).collect()).unwrap_or_default();
            let cfg = case["cfg"].as_u64().unwrap_or(0) as usize;
            let choices: Vec<usize> = case["choices"].as_array().map(|a| a.iter().filter_map(|x| x.as_u64().map(|x| x as usize)).collect()).unwrap_or_default();
            let parser = Arc::new(parser_for(cfg));
            let r = run_schedule(&parser, &bodies, &choices);
            cooklang::verif_hooks::set_yield(None);
            let expected: Vec<Vec<String>> = bodies.iter().map(|b| b.iter().map(|&i| reference[cfg][i].clone()).collect()).collect();
            if r.diverged {
                eprintln!("engine: the recorded schedule cannot be replayed on this tree (divergence)");
                std::process::exit(2);
            }
            if r.outputs != expected {
                vec![Violation::new("result depends on the thread interleaving", "the recorded schedule reproduces the difference".to_string(), case.clone())]
            } else {
                vec![]
            }
        }
        _ => vec![],
    }
}

pub fn run(tier: Tier) {
    let c = ctx();
    c.set_rule("histories: every sequence of 1..=n calls (parse, parse_metadata, parse+scale+convert, parse with metadata / recipe-reference callbacks) over 9 inputs chosen to touch every piece of per-parse state (front matter, `>>` time-override bookkeeping, modes, duplicate mode, references, intermediate references, a parse-stage error that drains the iterator, inline quantities, fractions with scaling and conversion that force the lazily built fraction table) on one shared parser per configuration, repeated on a clone and on a new instance, all in one process; each call's complete observation (recipe JSON, ordered diagnostics with labels and hints, metadata-only parse, scaled+converted recipe) must equal the observation of a fresh subprocess whose first call it is; all ordered pairs of event-wise interleaved pull parsers; schedules: iterative context bounding over real threads sharing one parser, scheduling points at every token pulled and every event consumed (hook), all schedules with at most p preemptions; each thread's observations must equal the fresh-process reference; non-trivial = every history / schedule; distinct = distinct histories and schedules");
    if INPUTS[0].len() != INPUTS[6].len() {
        eprintln!("engine: C18 inputs 0 and 6 must have the same byte length");
        std::process::exit(2);
    }
    let reference = match fresh_reference() {
        Ok(r) => Arc::new(r),
        Err(e) => {
            eprintln!("engine: cannot build the fresh-process reference: {e}");
            std::process::exit(2)
        }
    };
    for cfg in 0..CFGS {
        for i in 0..CALLS {
            if reference[cfg][i].starts_with("FRESH PROCESS FAILED") {
                c.violation(Violation::new(
                    "a call fails when it is the first one in a new process",
                    format!("cfg {cfg} call {i} (input {:?} kind {}): {}", INPUTS[i / KINDS], i % KINDS, reference[cfg][i]),
                    json!({"kind": "fresh", "cfg": cfg, "call": i}),
                ));
            }
        }
    }
    if c.has_violations() {
        return;
    }
    // re-entrancy: the parse made from inside the validator callback must equal the plain parse of the same input
    for cfg in 0..CFGS {
        for i in 0..INPUTS.len() {
            let nested = reference[cfg][i * KINDS + 4].strip_prefix("nested=").and_then(|s| s.split('\u{1}').next()).unwrap_or("");
            if nested != "<validator not called>" && nested != reference[cfg][i * KINDS] {
                c.violation(Violation::new(
                    "result depends on being called from inside a callback of the same parser",
                    format!("cfg {cfg} input {:?}: parse from inside the metadata validator of parse_metadata differs from the plain parse; {}", INPUTS[i], diff_pos(&reference[cfg][i * KINDS], nested)),
                    json!({"kind": "reentrancy", "cfg": cfg, "input": i}),
                ));
            }
        }
    }
    if c.has_violations() {
        return;
    }
    c.part(json!({"inputs": INPUTS, "configurations": ["all extensions + bundled units", "canonical", "all extensions + bundled units with the minute unit renamed"]}));
    // histories: run on ONE thread so that process-wide and thread-local state accumulates
    let depth = tier.pick(3, 4);
    let k = CALLS as u64;
    let total: u64 = (1..=depth).map(|l| k.pow(l)).sum();
    let shared = [parser_for(0), parser_for(1), parser_for(2)];
    let mut local = Local::for_replay();
    let t0 = std::time::Instant::now();
    let mut nviol = 0;
    for idx in 0..total {
        let h = decode_history(idx, depth);
        let v = check_history(&reference, &shared, &h, &mut local);
        for x in v {
            nviol += 1;
            c.violation(x);
        }
        if nviol >= 3 {
            break;
        }
        if idx % (total / 3) == 5 {
            c.sample(json!({"history": h}));
        }
    }
    for i in 0..INPUTS.len() {
        for j in 0..INPUTS.len() {
            for v in check_interleaved_pull(i, j, &mut local) {
                c.violation(v);
            }
        }
    }
    c.evaluations.fetch_add(local.evaluations, std::sync::atomic::Ordering::Relaxed);
    c.nontrivial.fetch_add(total + (INPUTS.len() * INPUTS.len()) as u64, std::sync::atomic::Ordering::Relaxed);
    c.states.fetch_add(total, std::sync::atomic::Ordering::Relaxed);
    c.transitions.fetch_add(total, std::sync::atomic::Ordering::Relaxed);
    c.traces_validated.fetch_add(total, std::sync::atomic::Ordering::Relaxed);
    c.part(json!({"part": "histories", "depth": depth, "histories": total, "interleaved_pull_parser_pairs": INPUTS.len() * INPUTS.len(), "calls": local.evaluations, "wall_s": t0.elapsed().as_secs_f64()}));
    if c.has_violations() {
        return;
    }
    // schedules
    cooklang::verif_hooks::set_yield(Some(yield_point));
    for h in harnesses(tier) {
        let (execs, points, _max, v) = explore(&h, &reference);
        c.evaluations.fetch_add(execs, std::sync::atomic::Ordering::Relaxed);
        c.nontrivial.fetch_add(execs, std::sync::atomic::Ordering::Relaxed);
        c.states.fetch_add(points, std::sync::atomic::Ordering::Relaxed);
        c.transitions.fetch_add(points, std::sync::atomic::Ordering::Relaxed);
        c.traces_validated.fetch_add(execs, std::sync::atomic::Ordering::Relaxed);
        let bad = !v.is_empty();
        for x in v {
            c.violation(x);
        }
        if bad {
            break;
        }
        c.sample(json!({"harness": h.name, "threads": h.bodies, "preemption_bound": h.bound, "executions": execs}));
    }
    cooklang::verif_hooks::set_yield(None);
    if !c.has_violations() {
        traced(&reference);
    }
    if !c.has_violations() {
        stress_supplement(tier, &reference);
    }
    if !c.has_violations() {
        cold_start_supplement(tier);
    }
    c.note("states / transitions: history nodes plus scheduling points visited over all executions; traces_validated_against_impl: histories and complete schedules executed on the real parser");
    c.assume("threads are serialised by the explorer and switch only at the hook points (token pulled, event consumed) and at thread exit; races inside one token's processing and weak-memory effects are not explored");
    c.assume("the fresh-process reference is produced by this same binary started once per (configuration, input)");
}

/// a subscriber that enables every span and event (so that every field of every trace statement is evaluated)
struct EverythingOn;
impl tracing::Subscriber for EverythingOn {
    fn enabled(&self, _: &tracing::Metadata<'_>) -> bool {
        true
    }
    fn new_span(&self, _: &tracing::span::Attributes<'_>) -> tracing::span::Id {
        tracing::span::Id::from_u64(1)
    }
    fn record(&self, _: &tracing::span::Id, _: &tracing::span::Record<'_>) {}
    fn record_follows_from(&self, _: &tracing::span::Id, _: &tracing::span::Id) {}
    fn event(&self, _: &tracing::Event<'_>) {}
    fn enter(&self, _: &tracing::span::Id) {}
    fn exit(&self, _: &tracing::span::Id) {}
}

/// every call once more on a thread whose tracing subscriber has all levels on: the observation must not
/// depend on whether somebody listens to the library's trace output (run after the histories and schedules)
fn traced(reference: &[Vec<String>]) {
    let c = ctx();
    let mut n = 0u64;
    for cfg in 0..CFGS {
        let p = parser_for(cfg);
        for call in 0..CALLS {
            let got = tracing::subscriber::with_default(EverythingOn, || guarded(|| observe(&p, call)).unwrap_or_else(|m| format!("PANIC {m}")));
            n += 1;
            if got != reference[cfg][call] {
                c.violation(Violation::new(
                    "result depends on a tracing subscriber being installed",
                    format!("cfg {cfg} call {call} (input {} kind {}) under a subscriber with every level enabled differs from the fresh-process result; {}", call / KINDS, call % KINDS, diff_pos(&reference[cfg][call], &got)),
                    json!({"kind": "traced", "cfg": cfg, "call": call}),
                ));
                return;
            }
        }
    }
    c.evaluations.fetch_add(n, std::sync::atomic::Ordering::Relaxed);
    c.part(json!({"part": "calls repeated under a tracing subscriber with every level enabled", "calls": n}));
}

/// Supplement, NOT part of the exhaustive claim: free-running real threads
/// (no scheduler, so races inside one token's processing can happen) parse in
/// parallel for a fixed number of rounds; every result must equal the
/// single-threaded one. This samples schedules; a difference it finds is
/// still a real violation of the property.
fn stress_supplement(tier: Tier, _reference: &[Vec<String>]) {
    const STRESS_INPUTS: [&str; 6] = [
        "Add @salt… and 180 °C 😀 then #pot⸫ rest\n",
        "Mix @flour{200%g}⸫ @water… #bowl… ~rest… 5 min ½ cup\n",
        "---\ntitle: é\ntime: 1h\n---\n@a{1/2%cup} then @&a{0.333%cup} 350 F\n",
        ">> prep time: 5\n>> cook time: 3\n>> time: 10\nstep @x{1} @&x{2}\n",
        "@ñu… y más \\ñ 😀 @sal⸫ ¿qué? 20 min…\n",
        "= A ⸫\n> nota… é\n\n~t{5%min}… 😀° @é{1}\n",
    ];
    let c = ctx();
    let parser = Arc::new(parser_for(0));
    let expected: Vec<String> = STRESS_INPUTS.iter().map(|s| exact_image(&parser.parse(s))).collect();
    let threads = 8;
    let rounds = tier.pick(1500, 12000);
    let t0 = std::time::Instant::now();
    let bad: Arc<Mutex<Option<(usize, String)>>> = Arc::new(Mutex::new(None));
    let mut handles = Vec::new();
    for t in 0..threads {
        let (parser, expected, bad) = (parser.clone(), expected.clone(), bad.clone());
        handles.push(std::thread::spawn(move || {
            for r in 0..rounds {
                let i = (r + t) % STRESS_INPUTS.len();
                let got = match guarded(|| exact_image(&parser.parse(STRESS_INPUTS[i]))) {
                    Ok(g) => g,
                    Err(m) => format!("PANIC {m}"),
                };
                if got != expected[i] {
                    let mut b = bad.lock().unwrap();
                    if b.is_none() {
                        *b = Some((i, got));
                    }
                    return;
                }
                if bad.lock().unwrap().is_some() {
                    return;
                }
            }
        }));
    }
    for h in handles {
        let _ = h.join();
    }
    let total = threads as u64 * rounds as u64;
    c.part(json!({"supplement (sampling, not part of the exhaustive claim)": "free-running threads", "threads": threads, "parses": total, "wall_s": t0.elapsed().as_secs_f64()}));
    let found = bad.lock().unwrap().take();
    if let Some((i, got)) = found {
        c.violation(Violation::new(
            "result depends on the thread interleaving (free-running threads)",
            format!("{threads} free-running threads sharing one parser: input {:?} gave a result different from the single-threaded one; {}", STRESS_INPUTS[i], diff_pos(&expected[i], &got)),
            json!({"kind": "stress", "input": STRESS_INPUTS[i]}),
        ));
    }
}

/// Supplement, NOT part of the exhaustive claim: the first calls on a brand
/// new parser made by several free-running threads at once (lazily built
/// per-converter state would be initialised concurrently here).
fn cold_start_supplement(tier: Tier) {
    use std::sync::atomic::{AtomicUsize, Ordering};
    const INPUT: &str = "Add 2 tablespoons and 3 kilograms then ~{5%minutes} @x{1%millilitres} @y{2%fl oz} 180 °C, 1 teaspoon\n";
    let c = ctx();
    let warm = parser_for(0);
    let expected = exact_image(&warm.parse(INPUT));
    let threads = 8usize;
    let trials = tier.pick(2000, 20000);
    let t0 = std::time::Instant::now();
    let mut found: Option<String> = None;
    'trials: for _ in 0..trials {
        let parser = Arc::new(parser_for(0));
        let gate = Arc::new(AtomicUsize::new(0));
        let handles: Vec<_> = (0..threads)
            .map(|_| {
                let (parser, gate) = (parser.clone(), gate.clone());
                std::thread::spawn(move || {
                    gate.fetch_add(1, Ordering::AcqRel);
                    while gate.load(Ordering::Acquire) < threads {
                        std::hint::spin_loop();
                    }
                    guarded(|| exact_image(&parser.parse(INPUT))).unwrap_or_else(|m| format!("PANIC {m}"))
                })
            })
            .collect();
        for h in handles {
            let got = h.join().unwrap_or_else(|_| "THREAD PANICKED".to_string());
            if got != expected && found.is_none() {
                found = Some(got);
            }
        }
        if found.is_some() {
            break 'trials;
        }
    }
    c.part(json!({"supplement (sampling, not part of the exhaustive claim)": "first calls on a new parser from free-running threads", "threads": threads, "trials": trials, "wall_s": t0.elapsed().as_secs_f64()}));
    if let Some(got) = found {
        c.violation(Violation::new(
            "result depends on the thread interleaving (first calls on a new parser)",
            format!("{threads} free-running threads making the first calls on a new parser: input {INPUT:?} gave a result different from the single-threaded one; {}", diff_pos(&expected, &got)),
            json!({"kind": "stress", "input": INPUT}),
        ));
    }
}

fn init_stress_replay() {
    let reference: Vec<Vec<String>> = Vec::new();
    stress_supplement(Tier::Thorough, &reference);
    if !ctx().has_violations() {
        cold_start_supplement(Tier::Thorough);
    }
}
