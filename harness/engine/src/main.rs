//! Verification engine for the cooklang-rs properties C01..C19.
//!
//! usage: engine <ID> <quick|thorough>
//!        engine replay <file>

mod common;
mod c01;
mod c02;
mod c07;
mod c08;
mod c09;
mod c10;
mod c11;
mod c12;
mod c13;
mod c15;
mod c16;
mod c17;
mod c18;
mod c19;
mod corpus;
mod e1;
mod e2;
mod gen;
mod oracles;
mod strings;

use common::*;

fn usage() -> ! {
    eprintln!("usage: engine <C01..C19> <quick|thorough> | engine replay <file>");
    std::process::exit(2)
}

fn level_of(id: &str) -> &'static str {
    match id {
        "C03" | "C04" | "C05" | "C09" | "C11" | "C12" | "C13" | "C14" => "exploration",
        _ => "model_checking",
    }
}

fn main() {
    let args: Vec<String> = std::env::args().collect();
    if args.len() < 3 {
        usage();
    }
    install_panic_hook();
    if args[1] == "c18-fresh" && args.len() >= 4 {
        c18::fresh_main(args[2].parse().unwrap_or(0), args[3].parse().unwrap_or(0));
        return;
    }
    if args[1] == "c03-deep" && args.len() >= 3 {
        e1::deep_child(args[2].parse().unwrap_or(0));
        return;
    }
    if args[1] == "replay" {
        std::process::exit(replay(&args[2]));
    }
    let id: &'static str = Box::leak(args[1].clone().into_boxed_str());
    let tier = match std::env::var("VERIF_TIER").ok().as_deref().or(Some(args[2].as_str())) {
        Some("quick") => Tier::Quick,
        Some("thorough") => Tier::Thorough,
        _ => usage(),
    };
    let tier = match args[2].as_str() {
        "quick" => Tier::Quick,
        "thorough" => Tier::Thorough,
        _ => tier,
    };
    let c = init_ctx(id, tier, level_of(id));
    start_watchdog();
    let r = guarded(|| match id {
        "C01" => c01::run(tier),
        "C02" => c02::run(tier),
        "C03" => e1::run_c03(tier),
        "C07" => c07::run(tier),
        "C17" => c17::run(tier),
        "C04" => e1::run_c04(tier),
        "C05" => e1::run_c05(tier),
        "C06" => e1::run_c06(tier),
        "C14" => e1::run_c14(tier),
        "C08" => c08::run(tier),
        "C09" => c09::run(tier),
        "C10" => c10::run(tier),
        "C11" => c11::run(tier),
        "C12" => c12::run(tier),
        "C13" => c13::run(tier),
        "C15" => c15::run(tier),
        "C16" => c16::run(tier),
        "C18" => c18::run(tier),
        "C19" => c19::run(tier),
        _ => {
            eprintln!("engine: unknown property {id}");
            std::process::exit(2)
        }
    });
    if let Err(m) = r {
        eprintln!("engine: internal error (panic outside the code under test): {m}");
        std::process::exit(2);
    }
    let code = c.finish();
    flush();
    std::process::exit(code);
}

/// Re-run one recorded case without the explorer
fn replay(path: &str) -> i32 {
    let text = match std::fs::read_to_string(path) {
        Ok(t) => t,
        Err(e) => {
            eprintln!("engine: cannot read {path}: {e}");
            return 2;
        }
    };
    let j: serde_json::Value = match serde_json::from_str(&text) {
        Ok(j) => j,
        Err(e) => {
            eprintln!("engine: cannot parse {path}: {e}");
            return 2;
        }
    };
    let id: &'static str = Box::leak(j["property"].as_str().unwrap_or("").to_string().into_boxed_str());
    let case = &j["case"];
    init_ctx(id, Tier::Quick, level_of(id));
    println!("replaying {id} case: {case}");
    let vs: Vec<Violation> = match id {
        "C03" | "C04" | "C05" | "C06" | "C14" | "C15" => {
            let input = case["input"].as_str().unwrap_or("");
            let cfgs: Vec<strings::Config> = if case.get("configs").is_some() {
                case["configs"].as_array().unwrap().iter().map(strings::Config::from_json).collect()
            } else {
                vec![strings::Config::from_json(case)]
            };
            let mut out = vec![];
            for cfg in &cfgs {
                let r = guarded(|| match id {
                    "C03" => e1::c03_eval(cfg, input).0,
                    "C04" => oracles::c04_check(cfg, input).0,
                    "C05" => oracles::c05_check(cfg, input).0,
                    "C06" => oracles::c06_check(cfg, input).0,
                    "C14" => oracles::c14_check(cfg, input).0,
                    "C15" => c15::check(cfg, input).0,
                    _ => oracles::c17_crlf_check(cfg, input).0,
                });
                match r {
                    Ok(v) => out.extend(v),
                    Err(m) => out.push(Violation::new("panic", m, oracles::case_json(input, cfg))),
                }
            }
            out
        }
        "C11" => c11::check(case["input"].as_str().unwrap_or("")).0,
        "C12" => c12::replay(case),
        "C09" => c09::replay(case),
        "C13" => c13::replay(case),
        "C10" => c10::replay(case),
        "C08" => c08::replay(case),
        "C18" => c18::replay(case),
        "C19" => c19::replay(case),
        "C01" => c01::replay(case, c01::What::Recipe),
        "C02" => c02::replay(case),
        "C07" => c07::replay(case),
        "C17" => c17::replay(case),
        "C16" => c16::replay(case),
        _ => {
            eprintln!("engine: replay not supported for {id}");
            return 2;
        }
    };
    if vs.is_empty() {
        println!("replay: the property holds on this case");
        0
    } else {
        for v in &vs {
            println!("replay: VIOLATION [{}] {}", v.class, v.detail);
        }
        println!("VIOLATION property={id} replay={path}");
        1
    }
}
