#!/usr/bin/env python3
"""Generates /verif/MANIFEST.json from the table below (single source of truth)."""
import json, subprocess, os

REPO_HOOK_COMMITS = ["8efe976"]

# id -> (category, technique, level text, level note, design ref)
CHECKS = {
 "C03": ("exploration",
   "bounded-exhaustive enumeration of inputs (all strings up to n symbols over token / component / metadata alphabets, all single and double edits of a corpus) x configurations, every consumer executed on the real code",
   "Every string up to the stated length over alphabets that have one symbol per lexer/parser/analysis decision, and every 1-edit (thorough: 2-edit) neighbour of a corpus, is run through every public consumer under the stated extension subsets and converters; a panic, failed (debug) assertion, arithmetic overflow or a case that does not return is a violation. Exhaustive within the bound, no sampling.",
   "Trusted: the harness build enables debug-assertions and overflow-checks for cooklang; catch_unwind per consumer; 60 s watchdog per case. Not covered: inputs longer than the bound that are not within the edit distance of the corpus, characters outside the alphabets' classes, process aborts (reported as machinery failure). The 'randomly beyond' part of the property is sampling and outside this technique.",
   "DESIGN.md 5/C03"),
 "C04": ("exploration",
   "bounded-exhaustive enumeration of inputs with multi-byte symbols x extension subsets; span / tiling / fragment / ordering / rendering invariants checked on every execution",
   "All strings up to the stated length over the token alphabet including 2-, 3- and 4-byte characters, Unicode space and punctuation next to every marker, under all 192 extension subsets at small depth and the two extreme subsets deeper; every span reachable through the public API (events, Located fields, AST, labels of all diagnostics) plus the hook token stream is checked, and every report is rendered.",
   "Hook H1 (cfg cooklang_verif) exposes the token stream. Inner-span nesting is not demanded (the property does not state it). Not covered: strings beyond the bound / outside the corpus edit neighbourhood.",
   "DESIGN.md 5/C04"),
 "C05": ("exploration",
   "bounded-exhaustive enumeration of inputs (token alphabet with fence pairs at every position, fence alphabet, corpus edits); coverage of non-comment alphanumerics by event spans checked on every error-free event stream",
   "For every enumerated input whose raw event stream has no Error event, every alphanumeric character outside comments (independent scanner) must be inside the span of some event.",
   "The comment scanner is independent of the lexer and may only mask more than the lexer does (weaker obligation, never a false alarm).",
   "DESIGN.md 5/C05"),
 "C06": ("model_checking",
   "breadth-first exploration of the analysis state machine: all operation sequences up to depth n over a component alphabet (plus token strings, corpus edits), structural invariant evaluated in every reached state on the real implementation",
   "Each alphabet symbol is one operation on the analysis state (define, reference, intermediate reference, mode/duplicate switch, section, paragraph ...). All sequences up to the bound are executed on the real parser+analysis under the stated configurations and the referential-consistency invariant of the property is evaluated on every returned recipe (valid or not).",
   "States are operation sequences (no merging, so no abstraction can hide a state). 'Empty' text means length zero. Case-insensitive comparison uses simple lowercase folding on ASCII/Latin letters of the alphabet.",
   "DESIGN.md 5/C06"),
 "C14": ("exploration",
   "bounded-exhaustive differential enumeration: all strings up to n symbols over token and block alphabets x extension subsets, parse().metadata vs parse_metadata()",
   "Every enumerated input is parsed by both entry points under every listed extension subset; when both have output the metadata maps must be equal.",
   "Nothing is assumed about inputs where one of the two parses has no output (the property excludes them).",
   "DESIGN.md 5/C14"),
}

PENDING = {
 "C01": "check not built yet (reference model + spelling enumerator in progress)",
 "C02": "check not built yet (in progress)",
 "C07": "check not built yet (in progress)",
 "C08": "check not built yet (in progress)",
 "C09": "check not built yet (in progress)",
 "C10": "check not built yet (in progress)",
 "C11": "check not built yet (in progress)",
 "C12": "check not built yet (in progress)",
 "C13": "check not built yet (in progress)",
 "C15": "check not built yet (in progress)",
 "C16": "check not built yet (in progress)",
 "C17": "check not built yet (in progress)",
 "C18": "check not built yet (in progress)",
 "C19": "check not built yet (in progress)",
}

def main():
    checks = []
    for pid in sorted(CHECKS):
        cat, tech, text, note, ref = CHECKS[pid]
        checks.append({
            "property_id": pid,
            "quick_cmd": f"./check {pid} quick",
            "thorough_cmd": f"./check {pid} thorough",
            "evidence_file": f"/verif/evidence/{pid}.json",
            "replay_cmd_template": "./check replay {path}",
            "engine": "engine",
            "level_claimed": {"category": cat, "text": text, "design_ref": ref},
            "level_note": note,
            "technique": tech,
        })
    m = {
        "version": 1,
        "setup_cmd": "./setup.sh",
        "hooks": {
            "guard": "cooklang_verif",
            "enable": "RUSTFLAGS=--cfg cooklang_verif (set in /verif/harness/.cargo/config.toml; the harness depends on cooklang by path = /repo and on the bindings sources through /verif/harness/bindings-shim)",
            "baseline_off_cmd": "cd /repo && cargo nextest run --workspace --no-fail-fast --offline || cargo test --workspace --no-fail-fast --offline",
            "source_commits": REPO_HOOK_COMMITS,
            "add_only": True,
        },
        "engines": [
            {"name": "engine", "path": "/verif/harness/engine", "serves_properties": sorted(CHECKS),
             "kind_free_text": "Rust binary linking the real cooklang crate (and the bindings sources) from /repo; bounded-exhaustive exploration of inputs, operation sequences, configurations and thread schedules with invariant / reference-model oracles"},
        ],
        "checks": checks,
        "not_applicable": [{"property_id": k, "reason": v} for k, v in sorted(PENDING.items()) if k not in CHECKS],
        "notes": "See DESIGN.md. Known genuine defects: known_findings.json.",
    }
    with open(os.path.join(os.path.dirname(__file__), "..", "MANIFEST.json"), "w") as f:
        json.dump(m, f, indent=1)
        f.write("\n")

if __name__ == "__main__":
    main()
