//! C11: aisle configuration parsing is total, duplicate-free and round-trips

use crate::common::*;
use crate::strings::*;
use cooklang::aisle::{parse, write, AisleConfError};
use serde_json::json;
use std::collections::HashSet;
use std::sync::Arc;

fn off(input: &str, s: &str) -> Option<usize> {
    let a = input.as_ptr() as usize;
    let b = s.as_ptr() as usize;
    if b >= a && b + s.len() <= a + input.len() {
        Some(b - a)
    } else {
        None
    }
}

fn span_ok(s: &str, sp: cooklang::Span) -> bool {
    sp.start() <= sp.end() && sp.end() <= s.len() && s.is_char_boundary(sp.start()) && s.is_char_boundary(sp.end())
}

/// Reference parser written from the format description. Only compared on
/// inputs that use ASCII whitespace.
#[derive(Debug, PartialEq)]
enum RefResult {
    Ok(Vec<(String, Vec<Vec<String>>)>),
    BadCategoryName,
    DupCategory,
    DupIngredient,
    NoCategory,
}

/// `trim_categories`: whether the text between the brackets is trimmed (the statement fixes the trimming of
/// ingredient names only, so an implementation may do either; both readings are computed)
fn reference(input: &str, trim_categories: bool) -> RefResult {
    let mut cats: Vec<(String, Vec<Vec<String>>)> = Vec::new();
    let mut seen_cat: Vec<String> = Vec::new();
    let mut seen_name: Vec<String> = Vec::new();
    for raw in input.split('\n') {
        let raw = raw.strip_suffix('\r').unwrap_or(raw);
        let line = match raw.find("//") {
            Some(p) => &raw[..p],
            None => raw,
        };
        let line = line.trim();
        if line.is_empty() {
            continue;
        }
        if line.starts_with('[') && line.ends_with(']') && line.len() >= 2 {
            let name = &line[1..line.len() - 1];
            let name = if trim_categories { name.trim() } else { name };
            if name.contains('|') {
                return RefResult::BadCategoryName;
            }
            if seen_cat.iter().any(|c| c == name) {
                return RefResult::DupCategory;
            }
            seen_cat.push(name.to_string());
            cats.push((name.to_string(), Vec::new()));
        } else {
            let mut names = Vec::new();
            for n in line.split('|') {
                let n = n.trim();
                if seen_name.iter().any(|x| x == n) {
                    return RefResult::DupIngredient;
                }
                seen_name.push(n.to_string());
                names.push(n.to_string());
            }
            match cats.last_mut() {
                Some(c) => c.1.push(names),
                None => return RefResult::NoCategory,
            }
        }
    }
    RefResult::Ok(cats)
}

pub fn check(input: &str) -> (Vec<Violation>, bool, u64) {
    let case = json!({"input": input});
    let mut out = Vec::new();
    macro_rules! fail {
        ($class:expr, $($arg:tt)*) => {{
            out.push(Violation::new($class, format!($($arg)*), case.clone()));
            return (out, true, 0);
        }};
    }
    let parsed = match guarded(|| parse(input)) {
        Ok(p) => p,
        Err(m) => fail!(format!("panic in aisle::parse: {}", classify(&m)), "aisle::parse panicked: {m}"),
    };
    let ascii_ws = input.chars().all(|c| !c.is_whitespace() || matches!(c, ' ' | '\n' | '\r' | '\t'));
    // a lone \r is treated as whitespace by trim but is not a line break; keep the reference to \n / \r\n
    let plain_breaks = !input.replace("\r\n", "\n").contains('\r');
    let references = (ascii_ws && plain_breaks).then(|| [reference(input, false), reference(input, true)]);
    match parsed {
        Err(e) => {
            let spans: Vec<cooklang::Span> = match &e {
                AisleConfError::Parse { span, .. } => vec![*span],
                AisleConfError::DuplicateCategory { first_span, second_span, name }
                | AisleConfError::DuplicateIngredient { first_span, second_span, name } => {
                    for sp in [first_span, second_span] {
                        if !span_ok(input, *sp) {
                            fail!("aisle error span out of bounds", "span {sp:?} of {e:?}, input is {} bytes", input.len());
                        }
                        if &input[sp.range()] != name.as_str() {
                            fail!("aisle duplicate span does not show the name", "input[{sp:?}] = {:?} but the reported name is {name:?}", &input[sp.range()]);
                        }
                    }
                    if first_span.start() >= second_span.start() {
                        fail!("aisle duplicate spans not in order", "first {first_span:?} second {second_span:?}");
                    }
                    vec![*first_span, *second_span]
                }
            };
            for sp in &spans {
                if !span_ok(input, *sp) {
                    fail!("aisle error span out of bounds", "span {sp:?} of {e:?}, input is {} bytes", input.len());
                }
            }
            for color in [false, true] {
                match guarded(|| {
                    let mut buf = Vec::new();
                    cooklang::error::write_rich_error(&e, "aisle.conf", input, color, &mut buf).map(|_| buf.len())
                }) {
                    Ok(Ok(_)) => {}
                    Ok(Err(err)) => fail!("aisle error rendering failed", "write_rich_error returned {err}"),
                    Err(m) => fail!(format!("aisle error rendering panicked: {}", classify(&m)), "write_rich_error panicked: {m}"),
                }
            }
            let _ = e.to_string();
            if let Some(rs) = &references {
                // which of several errors is reported first is not part of the property
                let same = rs.iter().any(|r| !matches!(r, RefResult::Ok(_)));
                if !same {
                    let r = &rs[0];
                    fail!("aisle result differs from the reference parser", "implementation: {e:?}; reference: {r:?}");
                }
            }
            (out, true, fx_hash_str(&format!("{e:?}")))
        }
        Ok(conf) => {
            let mut cats = HashSet::new();
            let mut names = HashSet::new();
            let mut last = 0usize;
            let mut covered = vec![false; input.len()];
            for c in &conf.categories {
                if !cats.insert(c.name) {
                    fail!("aisle duplicate category returned", "category {:?} occurs twice in {:?}", c.name, conf.categories);
                }
                let Some(o) = off(input, c.name) else { fail!("aisle name is not a slice of the input", "category {:?}", c.name) };
                if o < last {
                    fail!("aisle names not in file order", "category {:?} at {o} after {last}", c.name);
                }
                last = o + c.name.len();
                for k in &mut covered[o..o + c.name.len()] {
                    *k = true;
                }
                for i in &c.ingredients {
                    if i.names.is_empty() {
                        fail!("aisle ingredient without names", "in category {:?}", c.name);
                    }
                    for n in &i.names {
                        if !names.insert(*n) {
                            fail!("aisle duplicate ingredient returned", "name {n:?} occurs twice in {:?}", conf.categories);
                        }
                        if n.trim() != *n {
                            fail!("aisle name not trimmed", "name {n:?}");
                        }
                        if n.contains('|') || n.contains('\n') {
                            fail!("aisle name contains a separator", "name {n:?}");
                        }
                        let Some(o) = off(input, n) else { fail!("aisle name is not a slice of the input", "name {n:?}") };
                        if o < last {
                            fail!("aisle names not in file order", "name {n:?} at {o} after {last}");
                        }
                        last = o + n.len();
                        for k in &mut covered[o..o + n.len()] {
                            *k = true;
                        }
                    }
                }
            }
            // conservation: outside comments every non-blank character other than the separators belongs to a name
            let mut ls = 0usize;
            for l in input.split_inclusive('\n') {
                let body = l.split("//").next().unwrap_or("");
                for (i, ch) in body.char_indices() {
                    if !ch.is_whitespace() && !matches!(ch, '[' | ']' | '|') && !covered[ls + i] {
                        fail!("aisle content lost", "character {ch:?} at byte {} is in no returned name: {:?}", ls + i, conf.categories);
                    }
                }
                ls += l.len();
            }
            // round trip
            let mut buf = Vec::new();
            if let Err(e) = write(&conf, &mut buf) {
                fail!("aisle write failed", "{e}");
            }
            let text = match String::from_utf8(buf) {
                Ok(t) => t,
                Err(_) => fail!("aisle write produced invalid UTF-8", ""),
            };
            // environment deviations of the sink: short writes (at most k bytes accepted per call) must still
            // deliver the whole text; a sink that runs full must give an error, never a silently cut text
            for k in [1usize, 3] {
                let mut t = Trickle { buf: Vec::new(), k };
                match write(&conf, &mut t) {
                    Ok(()) if t.buf == text.as_bytes() => {}
                    Ok(()) => fail!("aisle write loses text on a sink with short writes", "sink accepting {k} byte(s) per call received {:?}, the complete text is {text:?}", String::from_utf8_lossy(&t.buf)),
                    Err(e) => fail!("aisle write failed on a sink with short writes", "{e}"),
                }
            }
            if !text.is_empty() {
                let mut small = vec![0u8; text.len() - 1];
                if write(&conf, &mut small[..]).is_ok() {
                    fail!("aisle write reports success on a full sink", "a {}-byte slice took a {}-byte text without an error", text.len() - 1, text.len());
                }
            }
            match guarded(|| parse(&text).map(|c2| c2 == conf)) {
                Ok(Ok(true)) => {}
                Ok(Ok(false)) => fail!("aisle round trip differs", "parsed {:?}; written as {text:?}; parsed again {:?}", conf.categories, parse(&text).map(|c| c.categories)),
                Ok(Err(e)) => fail!("aisle round trip does not parse", "parsed {:?}; written as {text:?}; error {e:?}", conf.categories),
                Err(m) => fail!("aisle round trip panicked", "{m}"),
            }
            // lookup
            let info = conf.ingredients_info();
            let mut total = 0;
            for c in &conf.categories {
                for i in &c.ingredients {
                    for n in &i.names {
                        total += 1;
                        match info.get(n) {
                            None => fail!("aisle lookup misses a name", "{n:?}"),
                            Some(inf) => {
                                if inf.category != c.name || inf.common_name != i.names[0] || inf.name != *n {
                                    fail!("aisle lookup wrong", "name {n:?}: category {:?} (expected {:?}), common name {:?} (expected {:?})", inf.category, c.name, inf.common_name, i.names[0]);
                                }
                            }
                        }
                    }
                }
            }
            if info.len() != total {
                fail!("aisle lookup has extra entries", "{} entries for {total} names", info.len());
            }
            // the same lookup through the bindings' configuration object
            if !conf.categories.is_empty() {
                match guarded(|| cooklang_bindings::parse_aisle_config(input.to_string())) {
                    Err(m) => fail!("aisle lookup through the bindings panicked", "{m}"),
                    Ok(b) => {
                        for c in &conf.categories {
                            for i in &c.ingredients {
                                for n in &i.names {
                                    let got = b.category_for(n.to_string());
                                    if got.as_deref() != Some(c.name) {
                                        fail!("aisle lookup through the bindings wrong", "name {n:?}: category_for gives {got:?}, expected {:?}", c.name);
                                    }
                                }
                            }
                        }
                        let names: Vec<(&str, Vec<Vec<&str>>)> = conf.categories.iter().map(|c| (c.name, c.ingredients.iter().map(|i| i.names.clone()).collect())).collect();
                        let bnames: Vec<(&str, Vec<Vec<&str>>)> = b.categories.iter().map(|c| (c.name.as_str(), c.ingredients.iter().map(|i| std::iter::once(i.name.as_str()).chain(i.aliases.iter().map(|a| a.as_str())).collect()).collect())).collect();
                        if names != bnames {
                            fail!("bindings' aisle categories differ from the parsed configuration", "{bnames:?} vs {names:?}");
                        }
                    }
                }
            }
            if let Some(rs) = &references {
                let got: Vec<(String, Vec<Vec<String>>)> = conf
                    .categories
                    .iter()
                    .map(|c| (c.name.to_string(), c.ingredients.iter().map(|i| i.names.iter().map(|n| n.to_string()).collect()).collect()))
                    .collect();
                let got = RefResult::Ok(got);
                if !rs.iter().any(|r| *r == got) {
                    fail!("aisle result differs from the reference parser", "implementation: {:?}; reference: {:?} (or, with trimmed category names, {:?})", conf.categories, rs[0], rs[1]);
                }
            }
            let nontrivial = !conf.categories.is_empty();
            (out, nontrivial, fx_hash_str(&format!("{:?}", conf.categories)))
        }
    }
}

/// a sink that accepts at most `k` bytes per `write` call
struct Trickle {
    buf: Vec<u8>,
    k: usize,
}
impl std::io::Write for Trickle {
    fn write(&mut self, b: &[u8]) -> std::io::Result<usize> {
        let n = b.len().min(self.k);
        self.buf.extend_from_slice(&b[..n]);
        Ok(n)
    }
    fn flush(&mut self) -> std::io::Result<()> {
        Ok(())
    }
}

pub fn run(tier: Tier) {
    let c = ctx();
    c.set_rule("every canonical symbol sequence up to the stated length over the aisle alphabet, and over a second alphabet of names differing only in case; oracles: no panic; Err => spans in bounds on char boundaries, duplicate spans slice to the reported name, write_rich_error renders; Ok => names are trimmed sub-slices of the input in file order, no duplicates, every non-blank non-separator character outside comments is in a name, parse(write(conf)) == conf, also through sinks that take short writes (1 or 3 bytes per call) and a sink one byte too small (must be an error), ingredients_info maps every name to its category and first name, and so does the bindings' configuration object built from the same text (category_for, categories); on inputs with ASCII whitespace the result equals an independent reference parser; non-trivial = an error or at least one category; distinct = distinct hash of the result");
    let a = a_aisle();
    let (canon, distinct) = a.self_check(4);
    if canon != distinct {
        eprintln!("engine: aisle alphabet not uniquely decomposable");
        std::process::exit(2);
    }
    c.part(json!({"alphabet": a.name, "symbols": a.syms}));
    let a = Arc::new(a);
    let n = tier.pick(7, 8);
    let total = a.count_upto(n);
    let describe = {
        let a = a.clone();
        move |idx: u64| {
            let mut seq = Vec::new();
            let mut s = String::new();
            a.decode_upto(idx, n, &mut seq);
            a.concat(&seq, &mut s);
            json!({"input": s})
        }
    };
    let sample_every = total / 7;
    sweep(&format!("C11: A_aisle strings of 0..={n} symbols"), total, describe, |idx, local| {
        let mut seq = Vec::with_capacity(n as usize);
        let mut s = String::new();
        a.decode_upto(idx, n, &mut seq);
        a.concat(&seq, &mut s);
        if !a.is_canonical(&seq, &s) {
            local.outcome("skipped: same string as another symbol sequence");
            return vec![];
        }
        local.evaluations += 1;
        let (v, nontrivial, h) = check(&s);
        if nontrivial {
            local.observe(h);
        }
        if idx % sample_every == sample_every - 1 {
            c.sample(json!({"input": s}));
        }
        v
    });
    // names that differ only in case (the format is case sensitive)
    {
        let a = Arc::new(Alphabet::new("A_aisle_case", &["a", "A", "é", "É", "|", "\n", "[", "]", " "]));
        let n = tier.pick(7, 8);
        let total = a.count_upto(n);
        let a2 = a.clone();
        let describe = move |idx: u64| {
            let mut seq = Vec::new();
            let mut s = String::new();
            a2.decode_upto(idx, n, &mut seq);
            a2.concat(&seq, &mut s);
            json!({"input": s})
        };
        c.part(json!({"alphabet": a.name, "symbols": a.syms}));
        sweep(&format!("C11: A_aisle_case strings of 0..={n} symbols"), total, describe, |idx, local| {
            let mut seq = Vec::with_capacity(n as usize);
            let mut s = String::new();
            a.decode_upto(idx, n, &mut seq);
            a.concat(&seq, &mut s);
            local.evaluations += 1;
            let (v, nontrivial, h) = check(&s);
            if nontrivial {
                local.observe(h);
            }
            v
        });
    }
    // structured files: 1..=2 categories x 1..=2 lines x 1..=2 names over names that collide only by case
    {
        const CATS: [&str; 3] = ["a", "A", "b"];
        const NAMES: [&str; 4] = ["a", "A", "é", "É"];
        let lines: Vec<String> = NAMES.iter().map(|n| n.to_string()).chain(NAMES.iter().flat_map(|n| NAMES.iter().map(move |m| format!("{n}|{m}")))).collect();
        let mut cats: Vec<String> = Vec::new();
        for c in CATS {
            for l in &lines {
                cats.push(format!("[{c}]\n{l}\n"));
                for l2 in &lines {
                    cats.push(format!("[{c}]\n{l}\n{l2}\n"));
                }
            }
        }
        let k = cats.len() as u64;
        let total = k + k * k;
        let cats = Arc::new(cats);
        let c2 = cats.clone();
        let build = move |idx: u64| -> String {
            if idx < k {
                c2[idx as usize].clone()
            } else {
                let r = idx - k;
                format!("{}{}", c2[(r / k) as usize], c2[(r % k) as usize])
            }
        };
        let b2 = build.clone();
        sweep(&format!("C11: structured files, 1..=2 of {k} categories (3 names x 1..=2 lines x 1..=2 of 4 names colliding by case)"), total, move |i| json!({"input": b2(i)}), |idx, local| {
            let s = build(idx);
            local.evaluations += 1;
            let (v, nontrivial, h) = check(&s);
            if nontrivial {
                local.observe(h);
            }
            v
        });
    }
    // a realistic corpus and its single edits
    let corpus = ["[produce]\npotatoes\n\n[dairy]\nmilk\nbutter|mantequilla // spanish\n", "// c\n[a b]\nx y|z\n[c]\n", "[a]\n1|2|3\n[b]\n4\r\n5 | 6\n"];
    let syms = a.syms.clone();
    let mut points = Vec::new();
    for (i, s) in corpus.iter().enumerate() {
        for (p, _) in s.char_indices() {
            points.push((i, p));
        }
        points.push((i, s.len()));
    }
    let ops = 2 * syms.len() as u64 + 1;
    let total = points.len() as u64 * ops;
    let build = move |idx: u64| -> String {
        let (si, pos) = points[(idx / ops) as usize];
        let op = idx % ops;
        let src = corpus[si];
        let next = src[pos..].chars().next().map(|c| c.len_utf8()).unwrap_or(0);
        let n = syms.len() as u64;
        if op < n {
            format!("{}{}{}", &src[..pos], syms[op as usize], &src[pos..])
        } else if op < 2 * n {
            format!("{}{}{}", &src[..pos], syms[(op - n) as usize], &src[pos + next..])
        } else {
            format!("{}{}", &src[..pos], &src[pos + next..])
        }
    };
    let b2 = build.clone();
    sweep("C11: every single edit of 3 realistic aisle files", total, move |i| json!({"input": b2(i)}), |idx, local| {
        let s = build(idx);
        local.evaluations += 1;
        let (v, nontrivial, h) = check(&s);
        if nontrivial {
            local.observe(h);
        }
        v
    });
}
