//! C16: converters built from configuration layers are consistent or rejected

use crate::common::*;
use cooklang::convert::units_file::{BestUnits, Precedence, SIPrefix, Units, UnitsFile};
use cooklang::convert::{ConvertTo, ConverterBuilder, PhysicalQuantity, System};
use cooklang::quantity::{Number, Quantity, ScaledQuantity, Value};
use cooklang::Converter;
use serde_json::{json, Value as J};
use std::collections::BTreeMap;
use std::sync::Arc;

const BASE: &str = r#"
default_system = "metric"
[si.prefixes]
kilo = ["kilo"]
hecto = ["hecto"]
deca = ["deca"]
deci = ["deci"]
centi = ["centi"]
milli = ["milli"]
[si.symbol_prefixes]
kilo = ["k"]
hecto = ["h"]
deca = ["da"]
deci = ["d"]
centi = ["c"]
milli = ["m"]
[[quantity]]
quantity = "mass"
best = { metric = ["g", "kg"], imperial = ["oz"] }
[quantity.units]
metric = [ { names = ["gram"], symbols = ["g"], ratio = 1, expand_si = true } ]
imperial = [ { names = ["ounce"], symbols = ["oz"], ratio = 28.35 } ]
[[quantity]]
quantity = "volume"
best = ["l"]
units = [ { names = ["liter"], symbols = ["l"], ratio = 1 } ]
[[quantity]]
quantity = "length"
best = ["m"]
units = [ { names = ["meter"], symbols = ["m"], ratio = 1 } ]
[[quantity]]
quantity = "time"
best = ["s", "min"]
units = [ { names = ["second"], symbols = ["s"], ratio = 1 }, { names = ["minute"], symbols = ["min"], aliases=["mins"], ratio = 60 } ]
[[quantity]]
quantity = "temperature"
best = ["C"]
units = [ { names = ["celsius"], symbols = ["C"], ratio = 1, difference = 273.15 } ]
"#;

const LAYERS: &[&str] = &[
    "[extend.units]\ng = { names = [\"gramo\"] }",
    "[extend]\nprecedence = \"after\"\n[extend.units]\ng = { names = [\"gramo\"] }",
    "[extend]\nprecedence = \"override\"\n[extend.units]\ng = { names = [\"gramo\"] }",
    "[extend.units]\ng = { symbols = [\"gr\"] }",
    "[extend]\nprecedence = \"override\"\n[extend.units]\ng = { symbols = [\"gr\"] }",
    "[extend]\nprecedence = \"after\"\n[extend.units]\ngram = { symbols = [\"gr\"], aliases = [\"grm\"] }",
    "[extend.units]\nkg = { aliases = [\"kilo\"] }",
    "[extend]\nprecedence = \"override\"\n[extend.units]\nkilogram = { aliases = [\"kilos\"] }",
    "[extend.units]\nkg = { names = [\"kay\"] }",
    "[extend.units]\ng = { ratio = 2 }",
    "[extend.units]\nC = { difference = 273 }\nmin = { aliases = [\"minuto\"] }",
    "[extend.units]\ng = { names = [\"gramo\"] }\ngram = { symbols = [\"gr\"] }",
    "[extend.units]\ng = { aliases = [\"oz\"] }",
    "[extend.units]\noz = { names = [\"onza\"] }\nkg = { aliases = [\"kilo\"] }",
    "[extend.units]\nnope = { names = [\"x\"] }",
    "[extend.units]\ng = { names = [\"\"] }",
    "[extend]\nprecedence = \"override\"\n[extend.units]\ng = { names = [], symbols = [] }",
    "[extend.units]\nl = { names = [\"kilogram\"] }",
    "[si]\nprecedence = \"override\"\n[si.prefixes]\nkilo = [\"kilo\"]\nhecto = [\"hecto\"]\ndeca = [\"deca\"]\ndeci = [\"deci\"]\ncenti = [\"centi\"]\nmilli = [\"mili\"]",
    "[si.prefixes]\nkilo = []\nhecto = []\ndeca = []\ndeci = []\ncenti = []\nmilli = [\"mili\"]",
    "[si]\nprecedence = \"override\"\n[si.prefixes]\nkilo = [\"quilo\"]\nhecto = []\ndeca = []\ndeci = [\"deci\"]\ncenti = [\"centi\"]\nmilli = [\"mili\"]",
    "[si]\nprecedence = \"after\"\n[si.symbol_prefixes]\nkilo = [\"K\"]\nhecto = []\ndeca = []\ndeci = []\ncenti = []\nmilli = []",
    "[si]\nprecedence = \"override\"\n[si.symbol_prefixes]\nkilo = [\"k\"]\nhecto = [\"h\"]\ndeca = [\"D\"]\ndeci = [\"d\"]\ncenti = [\"c\"]\nmilli = [\"m\"]",
    "[[quantity]]\nquantity = \"mass\"\nunits = [ { names = [\"pound\"], symbols = [\"lb\"], ratio = 453.6 } ]",
    "[[quantity]]\nquantity = \"mass\"\nbest = [\"lb\", \"g\"]\nunits = [ { names = [\"pound\"], symbols = [\"lb\"], ratio = 453.6 } ]",
    "[[quantity]]\nquantity = \"mass\"\nunits = [ { names = [\"gram\"], symbols = [\"gg\"], ratio = 1 } ]",
    "[[quantity]]\nquantity = \"mass\"\nunits = [ { names = [\"kilogram\"], symbols = [\"kgg\"], ratio = 1000 } ]",
    "[[quantity]]\nquantity = \"mass\"\nbest = [\"l\"]",
    "[[quantity]]\nquantity = \"mass\"\nbest = [\"g\", \"l\"]",
    "[[quantity]]\nquantity = \"mass\"\nbest = []",
    "[[quantity]]\nquantity = \"mass\"\nbest = [\"zz\"]",
    "[[quantity]]\nquantity = \"mass\"\nbest = { metric = [], imperial = [\"oz\"] }",
    "[[quantity]]\nquantity = \"mass\"\nbest = { metric = [\"g\"], imperial = [] }",
    "[[quantity]]\nquantity = \"mass\"\nbest = { metric = [\"kg\", \"mg\", \"g\"], imperial = [\"oz\"] }",
    "[[quantity]]\nquantity = \"time\"\nbest = { metric = [\"min\"], imperial = [\"s\", \"g\"] }",
    "[[quantity]]\nquantity = \"volume\"\nunits = [ { names = [\"cup\"], symbols = [\"c\"], ratio = 0.25, expand_si = true } ]",
    "[[quantity]]\nquantity = \"volume\"\nbest = [\"cup\", \"l\"]\nunits = [ { names = [\"cup\"], symbols = [\"cp\"], aliases = [\"taza\"], ratio = 0.25 } ]",
    "[[quantity]]\nquantity = \"length\"\nunits = [ { names = [], symbols = [], ratio = 2 } ]",
    "[fractions]\nmetric = true\n[fractions.unit]\ng = { max_whole = 5 }",
    "[fractions.unit]\nzz = true",
    "[fractions]\nall = { enabled = true, accuracy = 2.0, max_denominator = 200 }",
    "[fractions]\nmetric = false\nimperial = { enabled = true, max_denominator = 8 }",
    "[fractions.quantity]\nmass = { enabled = true, accuracy = 0.2, max_denominator = 2 }\n[fractions.unit]\noz = { max_whole = 3, accuracy = 0.01 }",
    "default_system = \"imperial\"",
];

const PREFIXES: [(SIPrefix, f64); 6] = [
    (SIPrefix::Kilo, 1e3),
    (SIPrefix::Hecto, 1e2),
    (SIPrefix::Deca, 1e1),
    (SIPrefix::Deci, 1e-1),
    (SIPrefix::Centi, 1e-2),
    (SIPrefix::Milli, 1e-3),
];

// ---------------------------------------------------------------------------
// reference layering model

#[derive(Clone, Debug, PartialEq)]
struct MUnit {
    names: Vec<String>,
    symbols: Vec<String>,
    aliases: Vec<String>,
    ratio: f64,
    diff: f64,
    q: PhysicalQuantity,
    sys: Option<System>,
    expand: bool,
    /// (base unit index, prefix index) for units generated by SI expansion
    from: Option<(usize, usize)>,
}

impl MUnit {
    fn keys(&self) -> impl Iterator<Item = &String> {
        self.names.iter().chain(&self.symbols).chain(&self.aliases)
    }
}

#[derive(Debug)]
enum ModelOutcome {
    /// the layers are inconsistent for this reason; the builder must reject them
    MustReject(String),
    /// consistent: predicted units, best lists (quantity, system or none -> unit key lists sorted by ratio), default system
    Consistent { units: Vec<MUnit>, best: BTreeMap<String, Vec<Vec<String>>>, default_system: System },
}

type Pref = Option<[Vec<String>; 6]>;

fn join(a: Vec<String>, b: Vec<String>, p: Precedence) -> Vec<String> {
    match p {
        Precedence::Before => b.into_iter().chain(a).collect(),
        Precedence::After => a.into_iter().chain(b).collect(),
        Precedence::Override => b,
    }
}

fn join_pref(a: Pref, b: Pref, p: Precedence) -> Pref {
    match (a, b) {
        (None, None) => None,
        (Some(v), None) | (None, Some(v)) => Some(v),
        (Some(a), Some(b)) => {
            let mut out: [Vec<String>; 6] = Default::default();
            for i in 0..6 {
                out[i] = join(a[i].clone(), b[i].clone(), p);
            }
            Some(out)
        }
    }
}

fn expand(u: &MUnit, base_idx: usize, names: &[Vec<String>; 6], symbols: &[Vec<String>; 6]) -> Vec<MUnit> {
    let mut out = Vec::new();
    for (pi, (_, f)) in PREFIXES.iter().enumerate() {
        out.push(MUnit {
            names: names[pi].iter().flat_map(|p| u.names.iter().map(move |n| format!("{p}{n}"))).collect(),
            symbols: symbols[pi].iter().flat_map(|p| u.symbols.iter().map(move |n| format!("{p}{n}"))).collect(),
            aliases: vec![],
            ratio: u.ratio * f,
            diff: u.diff,
            q: u.q,
            sys: u.sys,
            expand: false,
            from: Some((base_idx, pi)),
        });
    }
    out
}

fn find_key(units: &[MUnit], key: &str) -> Option<usize> {
    units.iter().position(|u| u.keys().any(|k| k == key))
}

fn model(files: &[UnitsFile]) -> ModelOutcome {
    use ModelOutcome::MustReject;
    let mut units: Vec<MUnit> = Vec::new();
    let mut best: BTreeMap<String, BestUnits> = BTreeMap::new();
    let mut pref_names: Pref = None;
    let mut pref_syms: Pref = None;
    let mut default_system = System::Metric;
    let mut extends = Vec::new();
    let mut fraction_units: Vec<String> = Vec::new();
    let get = |m: &Option<enum_map::EnumMap<SIPrefix, Vec<String>>>| -> Pref {
        m.as_ref().map(|m| {
            let mut out: [Vec<String>; 6] = Default::default();
            for (i, (p, _)) in PREFIXES.iter().enumerate() {
                out[i] = m[*p].clone();
            }
            out
        })
    };
    for f in files {
        for g in &f.quantity {
            let mut add = |list: &Vec<cooklang::convert::units_file::UnitEntry>, sys: Option<System>| {
                for e in list {
                    units.push(MUnit {
                        names: e.names.iter().map(|s| s.to_string()).collect(),
                        symbols: e.symbols.iter().map(|s| s.to_string()).collect(),
                        aliases: e.aliases.iter().map(|s| s.to_string()).collect(),
                        ratio: e.ratio,
                        diff: e.difference,
                        q: g.quantity,
                        sys,
                        expand: e.expand_si,
                        from: None,
                    });
                }
            };
            match &g.units {
                Some(Units::Unified(l)) => add(l, None),
                Some(Units::BySystem { metric, imperial, unspecified }) => {
                    add(metric, Some(System::Metric));
                    add(imperial, Some(System::Imperial));
                    add(unspecified, None);
                }
                None => {}
            }
            if let Some(b) = &g.best {
                let empty = match b {
                    BestUnits::Unified(v) => v.is_empty(),
                    BestUnits::BySystem { metric, imperial } => metric.is_empty() || imperial.is_empty(),
                };
                if empty {
                    return MustReject("empty best list".into());
                }
                best.insert(g.quantity.to_string(), b.clone());
            }
        }
        if let Some(e) = &f.extend {
            extends.push(e.clone());
        }
        if let Some(si) = &f.si {
            pref_names = join_pref(pref_names, get(&si.prefixes), si.precedence);
            pref_syms = join_pref(pref_syms, get(&si.symbol_prefixes), si.precedence);
        }
        if let Some(d) = f.default_system {
            default_system = d;
        }
        if let Some(fr) = &f.fractions {
            fraction_units.extend(fr.unit.keys().cloned());
        }
    }
    // duplicate / empty keys among the declared units are detected when they are added
    let check_keys = |units: &[MUnit]| -> Option<String> {
        let mut seen: BTreeMap<&str, usize> = BTreeMap::new();
        for (i, u) in units.iter().enumerate() {
            if u.keys().next().is_none() {
                return Some(format!("unit {i} has no key"));
            }
            for k in u.keys() {
                if k.trim().is_empty() {
                    return Some(format!("unit {i} has an empty key"));
                }
                if seen.insert(k.as_str(), i).is_some() {
                    return Some(format!("key {k:?} declared twice"));
                }
            }
        }
        None
    };
    if let Some(r) = check_keys(&units) {
        return MustReject(r);
    }
    // SI expansion
    let n0 = units.len();
    for i in 0..n0 {
        if units[i].expand {
            let (Some(pn), Some(ps)) = (&pref_names, &pref_syms) else { return MustReject("expand_si without SI prefixes".into()) };
            let new = expand(&units[i], i, pn, ps);
            units.extend(new);
        }
    }
    if let Some(r) = check_keys(&units) {
        return MustReject(r);
    }
    // extend groups
    for e in &extends {
        let mut targets: Vec<(usize, &cooklang::convert::units_file::ExtendUnitEntry)> = Vec::new();
        for (k, entry) in &e.units {
            let Some(id) = find_key(&units, k) else { return MustReject(format!("extend of unknown unit {k:?}")) };
            if targets.iter().any(|(t, _)| *t == id) {
                return MustReject(format!("two extend keys for one unit ({k:?})"));
            }
            if units[id].from.is_some() && (entry.ratio.is_some() || entry.difference.is_some() || entry.names.is_some() || entry.symbols.is_some()) {
                return MustReject(format!("extend of expanded unit {k:?} edits more than aliases"));
            }
            targets.push((id, entry));
        }
        for (id, entry) in targets {
            let to_s = |v: &Vec<std::sync::Arc<str>>| v.iter().map(|s| s.to_string()).collect::<Vec<_>>();
            if let Some(r) = entry.ratio {
                units[id].ratio = r;
            }
            if let Some(d) = entry.difference {
                units[id].diff = d;
            }
            if let Some(n) = &entry.names {
                units[id].names = join(std::mem::take(&mut units[id].names), to_s(n), e.precedence);
            }
            if let Some(n) = &entry.symbols {
                units[id].symbols = join(std::mem::take(&mut units[id].symbols), to_s(n), e.precedence);
            }
            if let Some(n) = &entry.aliases {
                units[id].aliases = join(std::mem::take(&mut units[id].aliases), to_s(n), e.precedence);
            }
            if units[id].expand {
                let (Some(pn), Some(ps)) = (&pref_names, &pref_syms) else { return MustReject("expand_si without SI prefixes".into()) };
                let new = expand(&units[id], id, pn, ps);
                for nu in new {
                    let pos = units.iter().position(|u| u.from == nu.from).expect("expanded unit exists");
                    let old_aliases = units[pos].aliases.clone();
                    units[pos] = nu;
                    units[pos].aliases = old_aliases;
                }
            }
        }
        if let Some(r) = check_keys(&units) {
            return MustReject(r);
        }
    }
    // best lists
    let mut best_out: BTreeMap<String, Vec<Vec<String>>> = BTreeMap::new();
    for q in [PhysicalQuantity::Volume, PhysicalQuantity::Mass, PhysicalQuantity::Length, PhysicalQuantity::Temperature, PhysicalQuantity::Time] {
        let Some(b) = best.get(&q.to_string()) else { return MustReject(format!("no best units for {q}")) };
        let resolve = |names: &Vec<String>| -> Result<Vec<Vec<String>>, String> {
            let mut ids = Vec::new();
            for n in names {
                let id = find_key(&units, n).ok_or(format!("best list of {q} names unknown unit {n:?}"))?;
                if units[id].q != q {
                    return Err(format!("best list of {q} names {n:?} which is a {} unit", units[id].q));
                }
                ids.push(id);
            }
            ids.sort_by(|a, b| units[*a].ratio.partial_cmp(&units[*b].ratio).unwrap());
            Ok(ids.iter().map(|i| units[*i].keys().cloned().collect()).collect())
        };
        match b {
            BestUnits::Unified(v) => match resolve(v) {
                Ok(l) => {
                    best_out.insert(format!("{q}/metric"), l.clone());
                    best_out.insert(format!("{q}/imperial"), l);
                }
                Err(e) => return MustReject(e),
            },
            BestUnits::BySystem { metric, imperial } => {
                for (s, v) in [("metric", metric), ("imperial", imperial)] {
                    match resolve(v) {
                        Ok(l) => {
                            best_out.insert(format!("{q}/{s}"), l);
                        }
                        Err(e) => return MustReject(e),
                    }
                }
            }
        }
    }
    for k in &fraction_units {
        if find_key(&units, k).is_none() {
            return MustReject(format!("fractions for unknown unit {k:?}"));
        }
    }
    ModelOutcome::Consistent { units, best: best_out, default_system }
}

// ---------------------------------------------------------------------------

fn build(texts: &[&str]) -> Result<Result<Converter, String>, String> {
    let files: Vec<UnitsFile> = texts.iter().map(|t| toml::from_str(t).expect("layer parses")).collect();
    guarded(move || {
        let mut b = ConverterBuilder::new();
        for f in files {
            if let Err(e) = b.add_units_file(f) {
                return Err(format!("{e:?}"));
            }
        }
        b.finish().map_err(|e| format!("{e:?}"))
    })
}

fn variant(e: &str) -> &str {
    e.split(|c: char| !c.is_alphanumeric()).next().unwrap_or("")
}

fn unit_tuple(names: &[String], symbols: &[String], aliases: &[String], ratio: f64, diff: f64, q: PhysicalQuantity, sys: Option<System>) -> String {
    format!("{q}|{sys:?}|{names:?}|{symbols:?}|{aliases:?}|{ratio:e}|{diff:e}")
}

pub fn check_sequence(seq: &[usize]) -> Vec<Violation> {
    let texts: Vec<&str> = std::iter::once(BASE).chain(seq.iter().map(|&i| LAYERS[i])).collect();
    let case = json!({"layers": seq, "texts": seq.iter().map(|&i| LAYERS[i]).collect::<Vec<_>>()});
    let mut out = Vec::new();
    macro_rules! fail {
        ($class:expr, $($arg:tt)*) => {{
            out.push(Violation::new($class, format!("base + layers {seq:?}: {}", format!($($arg)*)), case.clone()));
            return out;
        }};
    }
    let files: Vec<UnitsFile> = texts.iter().map(|t| toml::from_str(t).expect("layer parses")).collect();
    let predicted = model(&files);
    let r1 = match build(&texts) {
        Ok(r) => r,
        Err(m) => fail!(format!("panic while building a converter: {}", classify(&m)), "the builder panicked: {m}"),
    };
    let r2 = match build(&texts) {
        Ok(r) => r,
        Err(m) => fail!(format!("panic while building a converter: {}", classify(&m)), "the builder panicked on the second build: {m}"),
    };
    match (&r1, &r2) {
        (Ok(a), Ok(b)) => {
            if a != b {
                fail!("two builds of the same layers differ", "the converters are not equal");
            }
        }
        (Err(_), Err(_)) => {}
        _ => {
            // acceptance depends on hash order: noted, the property does not forbid it
            ctx().outcome("acceptance depends on map iteration order", 1);
        }
    }
    match (r1, predicted) {
        (Err(e), ModelOutcome::Consistent { .. }) => {
            fail!("consistent layers rejected", "the reference model finds no inconsistency but the builder returned {e}");
        }
        (Err(e), ModelOutcome::MustReject(_)) => {
            let _ = variant(&e);
            out
        }
        (Ok(_), ModelOutcome::MustReject(why)) => {
            if r2.is_ok() {
                fail!("inconsistent layers accepted", "must be rejected because: {why}");
            }
            out
        }
        (Ok(c), ModelOutcome::Consistent { units, best, default_system }) => {
            // index consistency
            let mut owner: BTreeMap<String, usize> = BTreeMap::new();
            let mut got: Vec<String> = Vec::new();
            for (i, u) in c.all_units().enumerate() {
                let ks: Vec<String> = u.names.iter().chain(&u.symbols).chain(&u.aliases).map(|s| s.to_string()).collect();
                if ks.is_empty() {
                    fail!("unit without keys", "unit {i}");
                }
                for k in &ks {
                    if let Some(o) = owner.insert(k.clone(), i) {
                        fail!("key shared by two units", "key {k:?} belongs to units {o} and {i}");
                    }
                    match c.find_unit(k) {
                        Some(f) => {
                            if &*f != u {
                                fail!("key resolves to another unit", "key {k:?} of unit {} resolves to {}", u.symbol(), f.symbol());
                            }
                        }
                        None => fail!("key does not resolve", "key {k:?} of unit {}", u.symbol()),
                    }
                }
                got.push(unit_tuple(
                    &u.names.iter().map(|s| s.to_string()).collect::<Vec<_>>(),
                    &u.symbols.iter().map(|s| s.to_string()).collect::<Vec<_>>(),
                    &u.aliases.iter().map(|s| s.to_string()).collect::<Vec<_>>(),
                    u.ratio,
                    u.difference,
                    u.physical_quantity,
                    u.system,
                ));
            }
            let mut want: Vec<String> = units.iter().map(|u| unit_tuple(&u.names, &u.symbols, &u.aliases, u.ratio, u.diff, u.q, u.sys)).collect();
            got.sort();
            want.sort();
            if got != want {
                let only_got: Vec<&String> = got.iter().filter(|g| !want.contains(g)).collect();
                let only_want: Vec<&String> = want.iter().filter(|g| !got.contains(g)).collect();
                fail!("units differ from the layering model", "built but not predicted: {only_got:?}; predicted but not built: {only_want:?}");
            }
            if c.unit_count() != units.len() {
                fail!("unit count", "{} vs {}", c.unit_count(), units.len());
            }
            if c.default_system() != default_system {
                fail!("default system differs from the layering model", "{:?} vs {:?}", c.default_system(), default_system);
            }
            for q in [PhysicalQuantity::Volume, PhysicalQuantity::Mass, PhysicalQuantity::Length, PhysicalQuantity::Temperature, PhysicalQuantity::Time] {
                for (sys, sname) in [(System::Metric, "metric"), (System::Imperial, "imperial")] {
                    let b = c.best_units(q, Some(sys));
                    if b.is_empty() {
                        fail!("empty best-unit list", "{q} {sname}");
                    }
                    let mut prev = f64::NEG_INFINITY;
                    for u in &b {
                        if u.physical_quantity != q {
                            fail!("best list holds a unit of another quantity", "best {q}/{sname} has {} ({})", u.symbol(), u.physical_quantity);
                        }
                        if u.ratio < prev {
                            fail!("best list not in increasing size", "best {q}/{sname}: {:?}", b.iter().map(|u| (u.symbol().to_string(), u.ratio)).collect::<Vec<_>>());
                        }
                        prev = u.ratio;
                    }
                    let got: Vec<Vec<String>> = b.iter().map(|u| u.names.iter().chain(&u.symbols).chain(&u.aliases).map(|s| s.to_string()).collect()).collect();
                    if Some(&got) != best.get(&format!("{q}/{sname}")) {
                        fail!("best list differs from the layering model", "best {q}/{sname}: built {got:?}, predicted {:?}", best.get(&format!("{q}/{sname}")));
                    }
                    // the best units must be usable: fitting a value of every unit of the quantity works
                    for u in c.all_units().filter(|u| u.physical_quantity == q) {
                        let mut qv: ScaledQuantity = Quantity::new(Value::Number(Number::Regular(1500.0)), Some(u.symbol().to_string()));
                        match guarded(|| qv.convert(ConvertTo::Best(sys), &c).map(|_| qv.clone())) {
                            Ok(Ok(_)) => {}
                            Ok(Err(e)) => fail!("conversion with a built converter failed", "1500 {} to {sname}: {e}", u.symbol()),
                            Err(m) => fail!("conversion with a built converter panicked", "1500 {} to {sname}: {m}", u.symbol()),
                        }
                    }
                }
            }
            // fraction settings of the layers: later group-level settings reach the per-unit entries of earlier
            // layers; observed through try_fraction against the approximation under the reference limits
            let fr: Vec<cooklang::convert::units_file::Fractions> = files.iter().filter_map(|f| f.fractions.clone()).collect();
            if !fr.is_empty() {
                for u in c.all_units() {
                    for v in [0.12, 0.25, 0.5, 1.5, 2.3333, 3.5, 5.5, 7.0] {
                        if let Some(m) = crate::c12::try_fraction_mismatch(&c, &fr, u, v) {
                            fail!("fraction settings differ from the layering model", "{m}");
                        }
                    }
                }
            }
            out
        }
    }
}

/// Converter::default() equals the converter built from /repo/units.toml
fn check_default() -> Vec<Violation> {
    let mut out = Vec::new();
    let case = json!({"kind": "default converter"});
    let text = match std::fs::read_to_string("/repo/units.toml") {
        Ok(t) => t,
        Err(e) => {
            out.push(Violation::new("cannot read the shipped units file", e.to_string(), case));
            return out;
        }
    };
    let file: UnitsFile = match toml::from_str(&text) {
        Ok(f) => f,
        Err(e) => {
            out.push(Violation::new("shipped units file does not parse", e.to_string(), case));
            return out;
        }
    };
    if file != UnitsFile::bundled() {
        out.push(Violation::new("bundled units differ from the shipped file", "UnitsFile::bundled() != toml::from_str(units.toml)".to_string(), case.clone()));
    }
    let built = match guarded(|| ConverterBuilder::new().with_units_file(file).and_then(|b| b.finish())) {
        Ok(Ok(c)) => c,
        Ok(Err(e)) => {
            out.push(Violation::new("shipped units file rejected", e.to_string(), case));
            return out;
        }
        Err(m) => {
            out.push(Violation::new("panic building from the shipped units file", m, case));
            return out;
        }
    };
    let def = Converter::default();
    if def != built || Converter::bundled() != built {
        out.push(Violation::new("default converter differs from the shipped file", "Converter::default() != converter built from units.toml".to_string(), case.clone()));
    }
    // fractions are not part of PartialEq: compare behaviour on a grid
    for u in built.all_units() {
        for v in [0.25, 0.5, 1.0, 1.5, 2.3333, 7.0, 15.0, 100.2, 1500.0] {
            for op in 0..3 {
                let mut a: ScaledQuantity = Quantity::new(Value::Number(Number::Regular(v)), Some(u.symbol().to_string()));
                let mut b = a.clone();
                let (ra, rb) = match op {
                    0 => (a.fit(&def).is_ok(), b.fit(&built).is_ok()),
                    1 => (a.convert(System::Metric, &def).is_ok(), b.convert(System::Metric, &built).is_ok()),
                    _ => (a.convert(System::Imperial, &def).is_ok(), b.convert(System::Imperial, &built).is_ok()),
                };
                if ra != rb || format!("{a:?}") != format!("{b:?}") {
                    out.push(Violation::new("default converter behaves differently from the shipped file", format!("{v} {} op {op}: {a:?} vs {b:?}", u.symbol()), case.clone()));
                    return out;
                }
            }
        }
    }
    out
}

pub fn replay(case: &J) -> Vec<Violation> {
    if case["kind"] == "default converter" {
        return check_default();
    }
    let seq: Vec<usize> = case["layers"].as_array().map(|a| a.iter().filter_map(|x| x.as_u64().map(|x| x as usize)).collect()).unwrap_or_default();
    check_sequence(&seq)
}

pub fn run(tier: Tier) {
    let c = ctx();
    let depth = tier.pick(3, 4);
    let n = LAYERS.len() as u64;
    c.set_rule(format!("every sequence of 0..={depth} layers from a menu of {n} (extend blocks with each precedence on names / symbols / aliases / ratio, on expanded units, two keys of one unit, colliding keys, unknown and empty keys; SI prefix layers with each precedence; new units colliding with declared and expanded keys; best lists valid, empty, unknown, of another quantity; fractions; default system) on top of a fixed base file, each built twice from freshly parsed TOML; oracle: no panic; Ok => every key resolves to its unit, no shared key, best lists non-empty / own quantity / ascending and usable, units, best lists, default system and fraction limits (through try_fraction on 8 values per unit) equal the reference layering model; model finds an inconsistency => rejected; model finds none => accepted; plus Converter::default() == converter built from units.toml (incl. fraction behaviour on a grid); non-trivial = the sequence builds a converter; distinct = distinct layer sequences"));
    c.part(json!({"base": BASE, "menu": LAYERS}));
    for l in LAYERS {
        if let Err(e) = toml::from_str::<UnitsFile>(l) {
            eprintln!("engine: menu layer does not parse: {l}: {e}");
            std::process::exit(2);
        }
    }
    let total: u64 = (0..=depth).map(|d| n.pow(d)).sum();
    let decode = move |mut idx: u64| -> Vec<usize> {
        let mut len = 0u32;
        loop {
            let cnt = n.pow(len);
            if idx < cnt {
                break;
            }
            idx -= cnt;
            len += 1;
        }
        let mut seq = Vec::new();
        for _ in 0..len {
            seq.push((idx % n) as usize);
            idx /= n;
        }
        seq.reverse();
        seq
    };
    let built = Arc::new(std::sync::atomic::AtomicU64::new(0));
    let b2 = built.clone();
    sweep(&format!("C16 layer sequences of length 0..={depth} over {n} layers, two builds each"), total, move |i| json!({"layers": decode(i)}), |idx, local| {
        let seq = decode(idx);
        local.evaluations += 2;
        let v = check_sequence(&seq);
        if v.is_empty() {
            // count accepted sequences
            let texts: Vec<&str> = std::iter::once(BASE).chain(seq.iter().map(|&i| LAYERS[i])).collect();
            if matches!(build(&texts), Ok(Ok(_))) {
                local.nontrivial += 1;
                b2.fetch_add(1, std::sync::atomic::Ordering::Relaxed);
                local.outcome("built");
                if idx % 97 == 5 {
                    c.sample(json!({"layers": seq, "outcome": "built and equal to the layering model"}));
                }
            } else {
                local.outcome("rejected");
                if idx % 211 == 3 {
                    c.sample(json!({"layers": seq, "outcome": "rejected, as the model requires"}));
                }
            }
        }
        v
    });
    c.states.store(total, std::sync::atomic::Ordering::Relaxed);
    c.transitions.store(total - 1, std::sync::atomic::Ordering::Relaxed);
    c.traces_validated.store(total, std::sync::atomic::Ordering::Relaxed);
    sweep("C16 default converter vs shipped units file", 1, |_| json!({"kind": "default converter"}), |_, local| {
        local.evaluations += 1;
        local.nontrivial += 1;
        check_default()
    });
    c.note("states = layer sequences (nodes of the menu tree), transitions = 'add one layer'; every sequence is replayed on the real ConverterBuilder and compared with the reference layering model");
}
