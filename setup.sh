#!/bin/bash
# Build the framework offline from files on disk only.
set -e
cd "$(dirname "$0")/harness"
export CARGO_NET_OFFLINE=true
cargo build --release --offline
cargo build --offline -p deep
