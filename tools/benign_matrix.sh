#!/bin/bash
# usage: tools/benign_matrix.sh <dir with */patch.diff ...>   apply each benign (property-preserving) change to /repo, run every quick check, undo
# prints one line per (change, check) that did not exit 0
ALL="C01 C02 C03 C04 C05 C06 C07 C08 C09 C10 C11 C12 C13 C14 C15 C16 C17 C18 C19"
for p in "$@"; do
  name=$(echo "$p" | sed 's|/patch.diff||; s|.*/\([^/]*/[^/]*\)$|\1|')
  out=$(/verif/tools/try_patch.sh "$p" quick $ALL 2>&1)
  bad=$(echo "$out" | grep -E "^== C[0-9]+ exit=[^0]" | tr '\n' ' ')
  echo "BENIGN $name alarms: ${bad:-none}"
  if [ -n "$bad" ]; then echo "$out" | grep -E "exit=[^0]|violation class|patch does not apply|not clean" | cut -c1-600; fi
done
