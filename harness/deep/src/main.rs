//! Child process of check C03: one kind of line repeated many times, run through the
//! entry points on a thread with a 2 MiB stack. Exit 0 = returned, 3 = panicked;
//! a stack overflow aborts the process (the parent reports that).

const CASES: [(&str, usize); 8] = [(">> x\n", 30_000), (">> k: v\n", 30_000), ("a\n\n", 30_000), ("= s\n", 30_000), ("a\n", 30_000), ("> a\n", 30_000), ("@a{1} ", 30_000), ("[- c -] ", 30_000)];

fn main() {
    let case: usize = std::env::args().nth(1).and_then(|s| s.parse().ok()).unwrap_or(0);
    let (unit, n) = CASES[case % CASES.len()];
    let input = unit.repeat(n);
    let h = std::thread::Builder::new().stack_size(2 << 20).spawn(move || {
        for ext in [cooklang::Extensions::all(), cooklang::Extensions::empty()] {
            let p = cooklang::CooklangParser::new(ext, cooklang::Converter::bundled());
            let r = p.parse(&input);
            let _ = r.report().iter().count();
            let _ = p.parse_metadata(&input);
            let n_events = cooklang::parser::PullParser::new(&input, ext).count();
            let _ = cooklang::parser::PullParser::new(&input, ext).into_meta_iter().count();
            let (ast, _) = cooklang::ast::build_ast(cooklang::parser::PullParser::new(&input, ext)).into_tuple();
            std::hint::black_box((n_events, ast.is_some()));
        }
    });
    match h.map(|h| h.join()) {
        Ok(Ok(())) => std::process::exit(0),
        _ => std::process::exit(3),
    }
}
