//! Corpus of realistic sources and its bounded edit neighbourhood
//! (deviation-bounded exploration: every single edit, thorough: every pair
//! of edits on the short sources).

use crate::common::*;
use crate::strings::*;
use serde_json::json;
use std::sync::Arc;

pub const CORPUS: &[&str] = &[
    // canonical cases (one per construct)
    "Add a bit of chilli\n",
    "@thyme{2%sprigs} -- testing comments\nand some text\n",
    "Heat oven up to 200°C\n",
    "Add @chilli{3%items}, @ginger{10%g} and @milk{1%l}.\n",
    "Fry in #7-inch nonstick frying pan{ }\n",
    "#frying pan{two small}\n",
    "@milk{1 / 2 %cup}\n",
    "Top with @1000 island dressing{ }\n",
    "Add some @🧂\n",
    "@tipo 00 flour{250%g}\n",
    ">> Prep Time: 15 minutes\n>> Cook Time: 30 minutes\n",
    ">>cooking time    :30 mins\n",
    "Add a bit of chilli\n\nAdd a bit of hummus\n",
    "@water{7 k }\n",
    ">> servings: 1|2|3\n",
    "Preheat the oven to 200℃/Fan 180°C.\n",
    "Fry for ~{1/2%hour}\n",
    "Fry for ~potato{42%minutes}\n",
    "Let it ~rest⸫ then serve\n",
    "It is ~ 5\n",
    "Place in #pot, then boil\n",
    "Recipe # 5\n",
    // extensions
    "Add @flour{200%g} and @water. Mix.\n\nLet the @&(~1)dough{} rest for ~{1%hour}.\n",
    "@white wine|wine{} and @@tomato sauce|sauce{200%ml}(fresh)\n",
    "@eggs{2-4} @water{1.5-2%l} @flour{100%g} then @&flour{200-400%g}\n",
    ">> [mode]: components\n@igr{1%kg}\n#pot\n>> [mode]: steps\nMix @igr and @&igr{} in #pot\n",
    ">> [duplicate]: ref\n@water{1} @water{2} @+water{3}\n",
    "= Dough =\nMix @flour{1 1/2%cup}.\n\n== Sauce ==\n> A note\n> over two lines\n\nUse @&(=1)dough{} and @-salt @?thyme{=1%tsp}.\n",
    "---\ntitle: Cake\nservings: [2, 4]\ntime:\n  prep: 10 min\n  cook: 1h30m\ntags: a, b\nauthor: Mom <https://mom.example/x>\n---\nBake @cake{1} at 180 C for ~{40%min}. [- block -] Done\n",
    "---\nlocale: en_GB\nsource: https://x.y/z\n---\n\n= A\n@a{1%kg} -- c\n\n@&a{500%g} #pan{1}(big) #&pan\n",
    "Step one @a{=2%cups} with 1/2 inch and 5L\\\n\\@not @b{1}{2} ~t{5 min}(note)\n",
    "@a{1%kg} @&a{1%l} @&a{x} @A{2}\n",
    "\\@escaped \\{ \\- \\\\ done\n",
    "[- unterminated comment\n@a{1}\n",
    "> text block with @comp{1} and ~timer{1%min}\n",
    ">> [mode]: text\nA step that is text @a{1}\n",
    "@&missing @+a @+&b @--c @??d #@r ~&t{1%min} ~x|y{1%min} @a|b|c{} @|{} @{}\n",
    "@a{1/0} @b{%} @c{} #d{1%kg} ~e{1} ~{} @f{=} @g{1-} @h{=1-2%kg}\n",
    // many labels in one diagnostic, comments with dashes, numbers in text values, wrapped names
    ">> title: T\n>> a: 1\n>> b: 2\n>> c: 3\n>> d: 4\n>> e: 5\n>> f: 6\n>> g: 7\n>> h: 8\n>> i: 9\nstep\n",
    "Mix [-- note --] the @flour{1 heaped%cup} [---] and @extra virgin\nolive oil{} (or\nnot)\n",
    ">> servings: 4|2\n>> prep time: 5\n>> cook time: 3\n>> time: 10\nAdd @a{=1%kg}()\n",
    // units without `%` on every kind of component (advanced units), spaces that single edits turn into multi-byte ones
    "#pan{2 large} @oil{1 tbsp} ~{5 min} #lid{1 big}(glass) @x{2 - 3 cups}\n",
    // front matter with multi-byte line ends and standard keys that are diagnosed, LF and CRLF
    "---\ntitle: é\nservings: muchas 😀\ntags: {a: é}\ntime: soon €\nlocale: español 😀\nprep time: é\ncook time: 😀\nauthor: [é]\n---\npaso @sal{1%g}\n",
    "---\r\ntitle: é\r\nservings: muchas 😀\r\ntags: {a: é}\r\ntime: soon €\r\nlocale: español 😀\r\nprep time: é\r\ncook time: 😀\r\nauthor: [é]\r\n---\r\npaso @sal{1%g}\r\n",
    "---\r\ntitle: T\r\ntime: 1h\r\ncourse: café\r\nprep time: 5 min\r\ncook time: 10 min 😀\r\nservings: [2, 2]\r\n---\r\nMix @a{1%kg}(é)\r\nand #p\r\n\r\n>> k: v\r\n",
    "= Uno é =\r\n> nota é\r\n> más\r\n\r\nAñade @sal|é{1%g} [- é -] y ~{5%min}. -- é\r\n",
    // notes on references (diagnosed), same name for an ingredient and a cookware item, stray markers
    "@a{1} @&a{}(x) #p #&p(big) #a{} @&a{2} #&a ~- wait @+ b #? c\n",
    "---- Pancakes ----\n@b{1}\n---\nk: v\n---\nlast\n",
    // intermediate references whose step / section index exceeds the number of ingredients
    "one\n\n> note\n\ntwo\n\nthree\n\nUse @&(3)chopped things{} and @&(~2)that{1%kg}\n",
    "= A\nstep\n= B\nstep\n= C\nUse @&(=2)mix{} then @&(=~1)other{}\n",
    // a front matter whose YAML contains what the Cooklang lexer would read as a comment opener
    "---\nrange: [-18, -12]\nyield: [-1]\n---\nMix @flour{500%g} and @water{300%ml}.\n\nRest -] it.\n",
    // a definition at the very end of a line, a note on its reference (the label sits after the definition)
    "@a{1}\n@&a{}(x)\n",
    // components mode with text around the definitions (diagnosed fragment by fragment), comments and escapes in it
    ">> [mode]: components\n [-é-]ééa @igr{1%kg} \\é more [- ñ -] ñ\n",
    ">> [mode]: components\r\n é\r\né @igr{1%kg}\r\n",
    // equal consecutive lines in a paragraph and equal consecutive text runs in a step
    "> stir\n> stir\n> serve\n\nx @ 1 @ 1 @ 1\n",
    // section names made of digits with leading zeros / escapes
    "== 01 ==\nstep\n= 007\nstep\n== \\a ==\nstep\n",
];

fn edit_symbols(tier: Tier) -> Vec<&'static str> {
    match tier {
        Tier::Quick => vec!["a", "1", " ", "\n", "@", "~", "{", "}", "(", "%", "|", "&", "-", "=", ">", ":", "\\", "é", "---\n", "[-", "\u{a0}", "\u{2009}", "\u{feff}", "\u{200b}"],
        Tier::Thorough => a_tok_wide().syms,
    }
}

struct EditSpace {
    /// (source index, byte position)
    points: Vec<(usize, usize)>,
    syms: Vec<&'static str>,
}

impl EditSpace {
    fn new(tier: Tier) -> Self {
        let mut points = Vec::new();
        for (i, s) in CORPUS.iter().enumerate() {
            for (p, _) in s.char_indices() {
                points.push((i, p));
            }
            points.push((i, s.len()));
        }
        EditSpace {
            points,
            syms: edit_symbols(tier),
        }
    }
    fn ops(&self) -> u64 {
        2 * self.syms.len() as u64 + 1
    }
    fn total(&self) -> u64 {
        self.points.len() as u64 * self.ops()
    }
    /// insert sym / replace next char by sym / delete next char
    fn apply(&self, idx: u64) -> String {
        let ops = self.ops();
        let (si, pos) = self.points[(idx / ops) as usize];
        let op = idx % ops;
        let src = CORPUS[si];
        let next_len = src[pos..].chars().next().map(|c| c.len_utf8()).unwrap_or(0);
        let n = self.syms.len() as u64;
        let mut out = String::with_capacity(src.len() + 8);
        out.push_str(&src[..pos]);
        if op < n {
            out.push_str(self.syms[op as usize]);
            out.push_str(&src[pos..]);
        } else if op < 2 * n {
            out.push_str(self.syms[(op - n) as usize]);
            out.push_str(&src[pos + next_len..]);
        } else {
            out.push_str(&src[pos + next_len..]);
        }
        out
    }
}

pub fn edits_sweep(
    name: &str,
    tier: Tier,
    cfgs: Arc<Vec<Config>>,
    eval: impl Fn(&Config, &str) -> (Vec<Violation>, bool, u64) + Sync,
) {
    let c = ctx();
    if c.has_violations() {
        return;
    }
    let space = Arc::new(EditSpace::new(tier));
    let total = space.total();
    let describe = {
        let space = space.clone();
        let cfgs = cfgs.clone();
        move |idx: u64| json!({"input": space.apply(idx), "configs": cfgs.iter().map(|c| c.describe()).collect::<Vec<_>>()})
    };
    let full = format!(
        "{name}: every single edit (insert / replace / delete one of {} symbols at every character position) of {} corpus sources x {} configurations",
        space.syms.len(),
        CORPUS.len(),
        cfgs.len()
    );
    sweep(&full, total, describe, |idx, local| {
        let input = space.apply(idx);
        let mut out = Vec::new();
        for cfg in cfgs.iter() {
            local.evaluations += 1;
            let (v, nontrivial, h) = eval(cfg, &input);
            if nontrivial {
                local.observe(h ^ (cfg.ext.bits() as u64).wrapping_mul(0x9e3779b97f4a7c15) ^ ((cfg.conv as u64) << 60));
            }
            out.extend(v);
        }
        out
    });
    if tier == Tier::Thorough && !c.has_violations() {
        // all pairs of edits on the short sources
        double_edits(name, cfgs, eval);
    }
}

fn double_edits(
    name: &str,
    cfgs: Arc<Vec<Config>>,
    eval: impl Fn(&Config, &str) -> (Vec<Violation>, bool, u64) + Sync,
) {
    let syms: Vec<&'static str> = vec!["a", " ", "\n", "@", "~", "{", "}", "(", "%", "|", "&", "-", "=", ">", ":", "\\", "é"];
    let sources: Vec<&'static str> = CORPUS.iter().copied().filter(|s| s.len() <= 24).collect();
    // insertion of two symbols at two (ordered) positions
    let mut cases: Vec<(usize, usize, usize)> = Vec::new();
    for (si, s) in sources.iter().enumerate() {
        let pos: Vec<usize> = s.char_indices().map(|(p, _)| p).chain([s.len()]).collect();
        for (i, &p) in pos.iter().enumerate() {
            for &q in &pos[i..] {
                cases.push((si, p, q));
            }
        }
    }
    let k = syms.len() as u64;
    let total = cases.len() as u64 * k * k;
    let cases = Arc::new(cases);
    let sources = Arc::new(sources);
    let syms = Arc::new(syms);
    let build = {
        let (cases, sources, syms) = (cases.clone(), sources.clone(), syms.clone());
        move |idx: u64| -> String {
            let (si, p, q) = cases[(idx / (k * k)) as usize];
            let a = syms[((idx / k) % k) as usize];
            let b = syms[(idx % k) as usize];
            let s = sources[si];
            format!("{}{}{}{}{}", &s[..p], a, &s[p..q], b, &s[q..])
        }
    };
    let describe = {
        let build = build.clone();
        move |idx: u64| json!({"input": build(idx)})
    };
    let full = format!(
        "{name}: every pair of insertions ({} symbols, ordered positions) into the {} corpus sources of at most 24 bytes x {} configurations",
        syms.len(),
        sources.len(),
        cfgs.len()
    );
    sweep(&full, total, describe, |idx, local| {
        let input = build(idx);
        let mut out = Vec::new();
        for cfg in cfgs.iter() {
            local.evaluations += 1;
            let (v, nontrivial, h) = eval(cfg, &input);
            if nontrivial {
                local.observe(h ^ (cfg.ext.bits() as u64).wrapping_mul(0x9e3779b97f4a7c15));
            }
            out.extend(v);
        }
        out
    });
}

pub fn c03_edits(tier: Tier) {
    let corners = Arc::new(corner_configs());
    edits_sweep("C03 corpus edits", tier, corners, crate::e1::c03_eval);
}
