//! Shared machinery: run context, parallel exhaustive sweeps with panic and
//! hang capture, violation / known-finding bookkeeping, evidence and replay
//! files.

use rayon::prelude::*;
use serde_json::{json, Value as J};
use std::cell::RefCell;
use std::collections::{BTreeMap, HashSet};
use std::io::Write;
use std::panic::{catch_unwind, AssertUnwindSafe};
use std::sync::atomic::{AtomicBool, AtomicU64, AtomicUsize, Ordering};
use std::sync::{Mutex, OnceLock};
use std::time::Instant;

pub const VERIF_DIR: &str = "/verif";

#[derive(Clone, Copy, PartialEq, Eq, Debug)]
pub enum Tier {
    Quick,
    Thorough,
}

impl Tier {
    pub fn name(self) -> &'static str {
        match self {
            Tier::Quick => "quick",
            Tier::Thorough => "thorough",
        }
    }
    pub fn pick<T>(self, quick: T, thorough: T) -> T {
        match self {
            Tier::Quick => quick,
            Tier::Thorough => thorough,
        }
    }
}

// ---------------------------------------------------------------------------
// panic capture

thread_local! {
    static LAST_PANIC: RefCell<Option<String>> = const { RefCell::new(None) };
}

pub fn install_panic_hook() {
    std::panic::set_hook(Box::new(|info| {
        let msg = info
            .payload()
            .downcast_ref::<String>()
            .cloned()
            .or_else(|| info.payload().downcast_ref::<&str>().map(|s| s.to_string()))
            .unwrap_or_else(|| "<non-string panic payload>".to_string());
        let loc = info
            .location()
            .map(|l| format!("{}:{}", l.file(), l.line()))
            .unwrap_or_default();
        LAST_PANIC.with(|p| *p.borrow_mut() = Some(format!("{msg} @ {loc}")));
    }));
}

/// Runs `f`, returning `Err(panic message @ location)` if it panicked.
pub fn guarded<T>(f: impl FnOnce() -> T) -> Result<T, String> {
    match catch_unwind(AssertUnwindSafe(f)) {
        Ok(v) => Ok(v),
        Err(_) => Err(LAST_PANIC
            .with(|p| p.borrow_mut().take())
            .unwrap_or_else(|| "<panic without message>".to_string())),
    }
}

/// Replace digit runs so that messages that differ only in offsets group together
pub fn classify(msg: &str) -> String {
    let mut out = String::new();
    let mut prev_digit = false;
    for c in msg.chars() {
        if c.is_ascii_digit() {
            if !prev_digit {
                out.push('#');
            }
            prev_digit = true;
        } else {
            prev_digit = false;
            out.push(c);
        }
        if out.len() > 160 {
            break;
        }
    }
    out
}

// ---------------------------------------------------------------------------
// violations, known findings

#[derive(Clone, Debug)]
pub struct Violation {
    /// short machine-readable class, used to group and to match known findings
    pub class: String,
    /// human-readable explanation (expected vs observed)
    pub detail: String,
    /// replayable case
    pub case: J,
}

impl Violation {
    pub fn new(class: impl Into<String>, detail: impl Into<String>, case: J) -> Self {
        Violation {
            class: class.into(),
            detail: detail.into(),
            case,
        }
    }
}

#[derive(Clone, Debug, serde::Deserialize)]
pub struct KnownFinding {
    pub id: String,
    pub property: String,
    /// substring that has to occur in the violation class
    pub class_contains: String,
    /// optional substrings that all have to occur in the violation detail
    #[serde(default)]
    pub detail_contains: Vec<String>,
    pub what: String,
}

#[derive(Clone, Debug, Default, serde::Deserialize)]
pub struct KnownFindings {
    #[serde(default)]
    pub open: Vec<KnownFinding>,
    #[serde(default)]
    pub fixed: Vec<String>,
}

pub fn load_known_findings() -> KnownFindings {
    let p = format!("{VERIF_DIR}/known_findings.json");
    match std::fs::read_to_string(&p) {
        Ok(s) => serde_json::from_str(&s).unwrap_or_else(|e| {
            eprintln!("engine: cannot parse {p}: {e}");
            std::process::exit(2)
        }),
        Err(_) => KnownFindings::default(),
    }
}

// ---------------------------------------------------------------------------
// run context

pub struct Ctx {
    pub id: &'static str,
    pub tier: Tier,
    pub seed: u64,
    pub level: &'static str,
    pub start: Instant,
    pub known: KnownFindings,

    pub evaluations: AtomicU64,
    pub nontrivial: AtomicU64,
    pub hashed: AtomicU64,
    pub states: AtomicU64,
    pub transitions: AtomicU64,
    pub traces_validated: AtomicU64,
    pub exhaustive: AtomicBool,

    violations: Mutex<BTreeMap<String, (u64, Violation)>>,
    known_hits: Mutex<BTreeMap<String, (u64, String)>>,
    pub stop: AtomicBool,
    samples: Mutex<Vec<J>>,
    outcomes: Mutex<BTreeMap<String, u64>>,
    notes: Mutex<Vec<String>>,
    parts: Mutex<Vec<J>>,
    distinct: Mutex<HashSet<u64>>,
    pub rule: Mutex<String>,
    pub assumptions: Mutex<Vec<String>>,
    pub caps: Mutex<Vec<String>>,
}

static CTX: OnceLock<Ctx> = OnceLock::new();

pub fn ctx() -> &'static Ctx {
    CTX.get().expect("context not initialised")
}

pub fn init_ctx(id: &'static str, tier: Tier, level: &'static str) -> &'static Ctx {
    let seed = std::env::var("VERIF_SEED")
        .ok()
        .and_then(|s| s.parse::<u64>().ok())
        .unwrap_or(0);
    let c = Ctx {
        id,
        tier,
        seed,
        level,
        start: Instant::now(),
        known: load_known_findings(),
        evaluations: AtomicU64::new(0),
        nontrivial: AtomicU64::new(0),
        hashed: AtomicU64::new(0),
        states: AtomicU64::new(0),
        transitions: AtomicU64::new(0),
        traces_validated: AtomicU64::new(0),
        exhaustive: AtomicBool::new(true),
        violations: Mutex::new(BTreeMap::new()),
        known_hits: Mutex::new(BTreeMap::new()),
        stop: AtomicBool::new(false),
        samples: Mutex::new(Vec::new()),
        outcomes: Mutex::new(BTreeMap::new()),
        notes: Mutex::new(Vec::new()),
        parts: Mutex::new(Vec::new()),
        distinct: Mutex::new(HashSet::new()),
        rule: Mutex::new(String::new()),
        assumptions: Mutex::new(Vec::new()),
        caps: Mutex::new(Vec::new()),
    };
    let _ = CTX.set(c);
    ctx()
}

impl Ctx {
    pub fn quick(&self) -> bool {
        self.tier == Tier::Quick
    }

    /// Report a violation found by an oracle. Known findings are separated.
    pub fn violation(&self, v: Violation) {
        for k in &self.known.open {
            if k.property == self.id
                && v.class.contains(&k.class_contains)
                && k.detail_contains.iter().all(|d| v.detail.contains(d))
            {
                let mut h = self.known_hits.lock().unwrap();
                let e = h
                    .entry(k.id.clone())
                    .or_insert((0, format!("{} e.g. {}", k.what, short(&v.case.to_string(), 200))));
                e.0 += 1;
                return;
            }
        }
        let mut m = self.violations.lock().unwrap();
        let key = classify(&v.class);
        match m.get_mut(&key) {
            Some(e) => {
                e.0 += 1;
                // keep the smallest case as the representative
                if v.case.to_string().len() < e.1.case.to_string().len() {
                    e.1 = v;
                }
            }
            None => {
                m.insert(key, (1, v));
            }
        }
        if m.len() >= 12 {
            self.stop.store(true, Ordering::Relaxed);
        }
    }

    pub fn has_violations(&self) -> bool {
        !self.violations.lock().unwrap().is_empty()
    }

    pub fn sample(&self, s: J) {
        let mut v = self.samples.lock().unwrap();
        if v.len() < 12 {
            v.push(s);
        }
    }
    pub fn samples_len(&self) -> usize {
        self.samples.lock().unwrap().len()
    }

    pub fn outcome(&self, name: &str, n: u64) {
        *self.outcomes.lock().unwrap().entry(name.to_string()).or_insert(0) += n;
    }

    pub fn note(&self, s: impl Into<String>) {
        self.notes.lock().unwrap().push(s.into());
    }

    pub fn part(&self, p: J) {
        self.parts.lock().unwrap().push(p);
    }

    pub fn assume(&self, s: impl Into<String>) {
        self.assumptions.lock().unwrap().push(s.into());
    }

    pub fn cap(&self, s: impl Into<String>) {
        self.exhaustive.store(false, Ordering::Relaxed);
        self.caps.lock().unwrap().push(s.into());
    }

    pub fn set_rule(&self, s: impl Into<String>) {
        *self.rule.lock().unwrap() = s.into();
    }

    /// register hashes of distinct non-trivial observations (bounded set)
    pub fn add_distinct(&self, hashes: impl IntoIterator<Item = u64>) {
        let mut d = self.distinct.lock().unwrap();
        for h in hashes {
            if d.len() < 20_000_000 {
                d.insert(h);
            }
        }
    }
    pub fn distinct_len(&self) -> u64 {
        self.distinct.lock().unwrap().len() as u64
    }

    /// Write the evidence file, print the verdict lines, return the exit code
    pub fn finish(&self) -> i32 {
        let wall = self.start.elapsed().as_secs_f64();
        let viol = self.violations.lock().unwrap();
        let known = self.known_hits.lock().unwrap();

        let mut replay_paths = Vec::new();
        let _ = std::fs::create_dir_all(format!("{VERIF_DIR}/replays"));
        for (class, (count, v)) in viol.iter() {
            let h = fx_hash_str(&format!("{}{}", class, v.case));
            let path = format!("{VERIF_DIR}/replays/{}-{:016x}.json", self.id, h);
            let body = json!({
                "property": self.id,
                "class": v.class,
                "count_in_this_run": count,
                "detail": v.detail,
                "case": v.case,
            });
            if let Err(e) = std::fs::write(&path, serde_json::to_string_pretty(&body).unwrap()) {
                eprintln!("engine: cannot write {path}: {e}");
            }
            replay_paths.push((path, v.clone(), *count));
        }

        let evaluations = self.evaluations.load(Ordering::Relaxed);
        let distinct_set = self.distinct_len();
        let nontrivial = self.nontrivial.load(Ordering::Relaxed);
        // distinct_nontrivial: either counted through the hash set of
        // observations, or (for enumerations whose cases are distinct by
        // construction) the number of non-trivial cases
        // non-trivial cases that are distinct by construction + distinct observation hashes
        let distinct_nontrivial = distinct_set + nontrivial;
        let mut coverage = json!({
            "evaluations": evaluations,
            "distinct_nontrivial": distinct_nontrivial,
            "nontrivial_distinct_by_construction": nontrivial,
            "nontrivial_hashed_cases": self.hashed.load(Ordering::Relaxed),
            "nontrivial_distinct_hashes": distinct_set,
            "rule": self.rule.lock().unwrap().clone(),
            "samples": self.samples.lock().unwrap().clone(),
            "exhaustive": self.exhaustive.load(Ordering::Relaxed),
            "parts": self.parts.lock().unwrap().clone(),
            "outcomes": self.outcomes.lock().unwrap().clone(),
            "notes": self.notes.lock().unwrap().clone(),
            "caps_hit": self.caps.lock().unwrap().clone(),
            "known_findings_met": known.iter().map(|(k, (n, w))| json!({"id": k, "times": n, "what": w})).collect::<Vec<_>>(),
        });
        let states = self.states.load(Ordering::Relaxed);
        if states > 0 {
            coverage["states"] = json!(states);
            coverage["transitions"] = json!(self.transitions.load(Ordering::Relaxed).max(1));
            coverage["traces_validated_against_impl"] =
                json!(self.traces_validated.load(Ordering::Relaxed));
        }
        let ev = json!({
            "property_id": self.id,
            "tier": self.tier.name(),
            "seed": self.seed,
            "level": self.level,
            "coverage": coverage,
            "assumptions": self.assumptions.lock().unwrap().clone(),
            "wall_s": (wall * 1000.0).round() / 1000.0,
            "violations": viol.len(),
        });
        let _ = std::fs::create_dir_all(format!("{VERIF_DIR}/evidence"));
        let evp = format!("{VERIF_DIR}/evidence/{}.json", self.id);
        if let Err(e) = std::fs::write(&evp, serde_json::to_string_pretty(&ev).unwrap() + "\n") {
            eprintln!("engine: cannot write {evp}: {e}");
            return 2;
        }

        for (k, (n, w)) in known.iter() {
            println!("KNOWN-FINDING: property={} {} [{}; met {} times]", self.id, w, k, n);
        }
        println!(
            "{} {}: evaluations={} distinct_nontrivial={} states={} transitions={} exhaustive={} wall={:.1}s",
            self.id,
            self.tier.name(),
            evaluations,
            distinct_nontrivial,
            states,
            self.transitions.load(Ordering::Relaxed),
            self.exhaustive.load(Ordering::Relaxed),
            wall
        );
        if replay_paths.is_empty() {
            println!("{} OK", self.id);
            0
        } else {
            for (p, v, n) in &replay_paths {
                println!("  violation class [{}] x{}: {}", v.class, n, short(&v.detail, 600));
                println!("VIOLATION property={} replay={}", self.id, p);
            }
            1
        }
    }
}

pub fn short(s: &str, n: usize) -> String {
    if s.chars().count() <= n {
        s.to_string()
    } else {
        let t: String = s.chars().take(n).collect();
        format!("{t}…")
    }
}

pub fn fx_hash_str(s: &str) -> u64 {
    fx_hash_bytes(s.as_bytes())
}

pub fn fx_hash_bytes(b: &[u8]) -> u64 {
    // FNV-1a 64 followed by a finaliser; only used for de-duplication
    let mut h: u64 = 0xcbf29ce484222325;
    for &x in b {
        h ^= x as u64;
        h = h.wrapping_mul(0x100000001b3);
    }
    h ^= h >> 33;
    h = h.wrapping_mul(0xff51afd7ed558ccd);
    h ^= h >> 33;
    h
}

// ---------------------------------------------------------------------------
// watchdog for non-termination

const MAX_THREADS: usize = 256;
static SLOT_START_MS: [AtomicU64; MAX_THREADS] = [const { AtomicU64::new(0) }; MAX_THREADS];
static SLOT_CASE: [AtomicU64; MAX_THREADS] = [const { AtomicU64::new(0) }; MAX_THREADS];
static SLOT_SWEEP: [AtomicUsize; MAX_THREADS] = [const { AtomicUsize::new(0) }; MAX_THREADS];
static NEXT_SLOT: AtomicUsize = AtomicUsize::new(0);
thread_local! {
    static MY_SLOT: usize = NEXT_SLOT.fetch_add(1, Ordering::Relaxed) % MAX_THREADS;
}

type Describe = Box<dyn Fn(u64) -> J + Send + Sync>;
static SWEEPS: Mutex<Vec<(String, std::sync::Arc<Describe>)>> = Mutex::new(Vec::new());

/// wall-clock limit for a single case (seconds); a case normally takes microseconds
pub const CASE_TIMEOUT_S: u64 = 60;

fn now_ms() -> u64 {
    ctx().start.elapsed().as_millis() as u64 + 1
}

pub fn start_watchdog() {
    std::thread::spawn(|| loop {
        std::thread::sleep(std::time::Duration::from_millis(500));
        let now = now_ms();
        for i in 0..MAX_THREADS {
            let st = SLOT_START_MS[i].load(Ordering::Relaxed);
            if st != 0 && now.saturating_sub(st) > CASE_TIMEOUT_S * 1000 {
                let case_idx = SLOT_CASE[i].load(Ordering::Relaxed);
                let sweep = SLOT_SWEEP[i].load(Ordering::Relaxed);
                let (name, describe) = {
                    let s = SWEEPS.lock().unwrap();
                    s[sweep].clone()
                };
                let case = describe(case_idx);
                let c = ctx();
                c.violation(Violation::new(
                    "hang",
                    format!(
                        "case {case_idx} of sweep '{name}' did not return within {CASE_TIMEOUT_S} s"
                    ),
                    case,
                ));
                let code = c.finish();
                std::process::exit(if code == 0 { 1 } else { code });
            }
        }
    });
}

// ---------------------------------------------------------------------------
// parallel exhaustive sweep

pub struct Local {
    pub evaluations: u64,
    /// non-trivial cases that are distinct by construction
    pub nontrivial: u64,
    /// non-trivial cases whose observation hash is de-duplicated
    pub hashed: u64,
    pub distinct: Vec<u64>,
    pub outcomes: BTreeMap<&'static str, u64>,
}

impl Local {
    fn new() -> Self {
        Local {
            evaluations: 0,
            nontrivial: 0,
            hashed: 0,
            distinct: Vec::new(),
            outcomes: BTreeMap::new(),
        }
    }
    pub fn for_replay() -> Self {
        Self::new()
    }
    pub fn outcome(&mut self, name: &'static str) {
        *self.outcomes.entry(name).or_insert(0) += 1;
    }
    /// record the hash of a non-trivial observation
    pub fn observe(&mut self, h: u64) {
        self.hashed += 1;
        self.distinct.push(h);
    }
}

/// Explore every index in `0..total`, calling `eval(index, local)`.
///
/// `eval` returns the violations found for that case; a panic inside `eval`
/// that was not caught by the oracle itself is reported as a violation of
/// class `panic`. `describe` turns an index into a replayable case (used for
/// panics and hangs). The order of chunks is rotated by the seed; every index
/// is visited exactly once.
pub fn sweep(
    name: &str,
    total: u64,
    describe: impl Fn(u64) -> J + Send + Sync + 'static,
    eval: impl Fn(u64, &mut Local) -> Vec<Violation> + Sync,
) -> u64 {
    let c = ctx();
    let t0 = Instant::now();
    let describe: std::sync::Arc<Describe> = std::sync::Arc::new(Box::new(describe));
    let sweep_id = {
        let mut s = SWEEPS.lock().unwrap();
        s.push((name.to_string(), describe.clone()));
        s.len() - 1
    };
    if total == 0 {
        return 0;
    }
    let chunk: u64 = (total / 4096).clamp(1, 65536);
    let nchunks = total.div_ceil(chunk);
    let rot = if nchunks > 0 { c.seed % nchunks } else { 0 };
    let done = AtomicU64::new(0);
    (0..nchunks).into_par_iter().for_each(|ci| {
        if c.stop.load(Ordering::Relaxed) {
            return;
        }
        let ci = (ci + rot) % nchunks;
        let lo = ci * chunk;
        let hi = (lo + chunk).min(total);
        let slot = MY_SLOT.with(|s| *s);
        SLOT_SWEEP[slot].store(sweep_id, Ordering::Relaxed);
        let mut local = Local::new();
        for idx in lo..hi {
            SLOT_CASE[slot].store(idx, Ordering::Relaxed);
            SLOT_START_MS[slot].store(now_ms(), Ordering::Relaxed);
            let r = guarded(|| eval(idx, &mut local));
            match r {
                Ok(vs) => {
                    for v in vs {
                        c.violation(v);
                    }
                }
                Err(msg) => c.violation(Violation::new(
                    format!("panic: {}", classify(&msg)),
                    format!("the code under test panicked: {msg}"),
                    describe(idx),
                )),
            }
        }
        SLOT_START_MS[slot].store(0, Ordering::Relaxed);
        done.fetch_add(hi - lo, Ordering::Relaxed);
        c.evaluations.fetch_add(local.evaluations, Ordering::Relaxed);
        c.nontrivial.fetch_add(local.nontrivial, Ordering::Relaxed);
        c.hashed.fetch_add(local.hashed, Ordering::Relaxed);
        if !local.distinct.is_empty() {
            c.add_distinct(local.distinct.drain(..));
        }
        if !local.outcomes.is_empty() {
            let mut o = c.outcomes.lock().unwrap();
            for (k, v) in local.outcomes {
                *o.entry(k.to_string()).or_insert(0) += v;
            }
        }
    });
    let covered = done.load(Ordering::Relaxed);
    let complete = covered == total;
    if !complete {
        c.cap(format!(
            "sweep '{name}' stopped early after {covered} of {total} cases because violations were found"
        ));
    }
    c.part(json!({
        "sweep": name,
        "cases": total,
        "covered": covered,
        "complete": complete,
        "wall_s": (t0.elapsed().as_secs_f64() * 1000.0).round() / 1000.0,
    }));
    covered
}

pub fn flush() {
    let _ = std::io::stdout().flush();
}
