//! Alphabets and bounded-exhaustive string enumeration.

use cooklang::{Converter, CooklangParser, Extensions};

#[derive(Clone)]
pub struct Alphabet {
    pub name: &'static str,
    pub syms: Vec<&'static str>,
    /// symbol indices sorted by decreasing byte length (for the canonical check)
    by_len: Vec<usize>,
}

impl Alphabet {
    pub fn new(name: &'static str, syms: &[&'static str]) -> Self {
        let mut by_len: Vec<usize> = (0..syms.len()).collect();
        by_len.sort_by_key(|&i| std::cmp::Reverse(syms[i].len()));
        // symbols must be pairwise different
        for i in 0..syms.len() {
            for j in 0..i {
                assert_ne!(syms[i], syms[j], "duplicate alphabet symbol");
            }
        }
        Alphabet {
            name,
            syms: syms.to_vec(),
            by_len,
        }
    }

    pub fn k(&self) -> u64 {
        self.syms.len() as u64
    }

    /// number of symbol sequences of length exactly `n`
    pub fn count_exact(&self, n: u32) -> u64 {
        self.k().pow(n)
    }

    /// number of symbol sequences of length `0..=n`
    pub fn count_upto(&self, n: u32) -> u64 {
        (0..=n).map(|i| self.count_exact(i)).sum()
    }

    /// Decode an index of the space "all sequences of length 0..=n" (shorter first)
    pub fn decode_upto(&self, mut idx: u64, n: u32, seq: &mut Vec<usize>) {
        seq.clear();
        let mut len = 0;
        while len <= n {
            let c = self.count_exact(len);
            if idx < c {
                break;
            }
            idx -= c;
            len += 1;
        }
        assert!(len <= n, "index out of range");
        self.decode_exact(idx, len, seq);
    }

    /// Decode an index of the space "all sequences of length exactly n"
    pub fn decode_exact(&self, mut idx: u64, n: u32, seq: &mut Vec<usize>) {
        seq.clear();
        let k = self.k();
        for _ in 0..n {
            seq.push((idx % k) as usize);
            idx /= k;
        }
        // most significant symbol first, so that the enumeration order is
        // lexicographic in alphabet order (simplest symbols first)
        seq.reverse();
    }

    pub fn concat(&self, seq: &[usize], out: &mut String) {
        out.clear();
        for &i in seq {
            out.push_str(self.syms[i]);
        }
    }

    /// A sequence is canonical when it is the preferred decomposition of its
    /// concatenation: the one with the fewest symbols and, among those, the
    /// one that takes the longest symbol first at every position. Each string
    /// is therefore explored exactly once although several symbol sequences
    /// may spell it ("-" "-" and "--"), and its canonical sequence is never
    /// longer than any other sequence spelling it.
    pub fn is_canonical(&self, seq: &[usize], s: &str) -> bool {
        let b = s.as_bytes();
        let n = b.len();
        // min[pos] = fewest symbols that spell b[pos..]
        let mut min = [u8::MAX; 96];
        if n >= min.len() {
            return true;
        }
        min[n] = 0;
        for pos in (0..n).rev() {
            let mut best = u8::MAX;
            for sym in &self.syms {
                let sb = sym.as_bytes();
                if b[pos..].starts_with(sb) {
                    let rest = min[pos + sb.len()];
                    if rest != u8::MAX && rest + 1 < best {
                        best = rest + 1;
                    }
                }
            }
            min[pos] = best;
        }
        let mut pos = 0;
        for &si in seq {
            // preferred symbol at pos: longest among those on a minimal path
            let mut pick = None;
            for &cand in &self.by_len {
                let sb = self.syms[cand].as_bytes();
                if b[pos..].starts_with(sb) && min[pos + sb.len()] != u8::MAX && min[pos + sb.len()] + 1 == min[pos] {
                    pick = Some(cand);
                    break;
                }
            }
            if pick != Some(si) {
                return false;
            }
            pos += self.syms[si].len();
        }
        true
    }

    /// Self check: for depth `n` the canonical sequences are in bijection with
    /// the distinct strings. Returns (canonical sequences, distinct strings).
    pub fn self_check(&self, n: u32) -> (u64, u64) {
        let mut set = std::collections::HashSet::new();
        let mut canon = 0u64;
        let mut seq = Vec::new();
        let mut s = String::new();
        for idx in 0..self.count_upto(n) {
            self.decode_upto(idx, n, &mut seq);
            self.concat(&seq, &mut s);
            if self.is_canonical(&seq, &s) {
                canon += 1;
            }
            set.insert(s.clone());
        }
        (canon, set.len() as u64)
    }
}

/// Token alphabet: one symbol per lexer / parser decision, simplest first.
pub fn a_tok() -> Alphabet {
    Alphabet::new(
        "A_tok",
        &[
            "a", "1", " ", "\n", "@", "#", "~", "{", "}", "(", ")", "%", "|", "&", "-", "=", ">",
            ":", "/", ".", "\\", "é", "[", "]", "0", "?", "+", ",", "*", "--", "[-", "-]", ">>",
            "---\n", "\r\n", "b c", "{}", "{1%min}", "min", "C",
        ],
    )
}

/// Token alphabet with the additional byte widths and Unicode classes
pub fn a_tok_wide() -> Alphabet {
    let mut v = a_tok().syms;
    // (the last two: a byte order mark and a zero-width space, i.e. characters of display width 0)
    v.extend_from_slice(&["€", "😀", "\u{2009}", "⸫", "\t", "\u{a0}", "kg", "\r", "\u{feff}", "\u{200b}"]);
    Alphabet::new("A_tok_wide", &v)
}

/// Reduced token alphabet for the deepest tiers
pub fn a_tok_small() -> Alphabet {
    Alphabet::new(
        "A_tok_small",
        &[
            "a", "1", " ", "\n", "@", "#", "~", "{", "}", "(", ")", "%", "|", "&", "-", "=", ">",
            ":", "/", "\\", "é", "--", "[-", "-]", ">>", "---\n",
        ],
    )
}

/// Component alphabet: one symbol per analysis decision. A sequence is an
/// operation sequence for the analysis state machine.
pub fn a_comp() -> Alphabet {
    Alphabet::new(
        "A_comp",
        &[
            "@a{1}",
            "@&a{2}",
            "@a",
            "@A{}",
            " text ",
            "\n\n",
            "#p",
            "#&p",
            "#p{2}",
            "~t{1%min}",
            "~{5%min}",
            "\n= s\n",
            "@&(~1)d{}",
            "@&(1)d{}",
            "@&(=1)s{}",
            "@&(=~1)s{}",
            "\n> note\n\n",
            "\n>> k: v\n",
            "\n>> [mode]: steps\n",
            "\n>> [mode]: components\n",
            "\n>> [mode]: text\n",
            "\n>> [mode]: all\n",
            "\n>> [duplicate]: ref\n",
            "\n>> [duplicate]: new\n",
            "@+a",
            "@-a",
            "@?a",
            "@@a",
            "(n)",
            "()",
            "|x{}",
            "@b{1%kg}",
            "@&b{1%l}",
            "@&b",
            "@a{big}",
            "#&p{2}",
            "#+p",
            "180 C ",
            "\\",
            "#a",
            "#&a{}",
            "~{2%kg}",
            "@p{1}",
            "@&a{1%l}",
            // a two-word name and references that spell the blank differently
            "@a b{}",
            "@&a\u{a0}b{}",
            "@&a\tb{}",
        ],
    )
}

/// Values for the standard metadata keys
pub fn a_meta() -> Alphabet {
    Alphabet::new(
        "A_meta",
        &[
            "1", "0", "5", " ", "h", "m", "s", "d", "min", "hour", ".", "-", "e", "|", ",", "<",
            ">", "://", "_", "a", "x.y", "4294967295", "4294967296", "71582788", "71582789",
            "99999999999", "[", "]", "\"", "'", ":", "#", "{", "}", "é", "inf", "NaN", "+",
            // compact HhMm form at the u32 limit: 71582788 h = 2^32 - 16 min, so `71582788h15m` is the largest
            // representable total and `71582788h16m` the first one that is not (round 7, C03-r7a)
            "71582788h", "15m", "16m",
        ],
    )
}

/// Aisle configuration alphabet
pub fn a_aisle() -> Alphabet {
    Alphabet::new(
        "A_aisle",
        &[
            "a", "b", "|", "\n", "[", "]", " ", "//", "\r\n", "\t", "\u{a0}", "é",
        ],
    )
}

// ---------------------------------------------------------------------------
// configurations

pub const EXT_BITS: [u32; 8] = [1, 3, 5, 6, 7, 9, 10, 11];

/// The 192 distinct extension subsets (INTERMEDIATE_PREPARATIONS implies COMPONENT_MODIFIERS)
pub fn all_extension_subsets() -> Vec<Extensions> {
    let mut v = Vec::new();
    for m in 0..256u32 {
        let mut b = 0u32;
        for (i, bit) in EXT_BITS.iter().enumerate() {
            if m & (1 << i) != 0 {
                b |= 1 << bit;
            }
        }
        if b & (1 << 11) != 0 && b & (1 << 1) == 0 {
            continue;
        }
        v.push(Extensions::from_bits(b).expect("valid extension bits"));
    }
    // simplest first: order by number of enabled flags
    v.sort_by_key(|e| (e.bits().count_ones(), e.bits()));
    assert_eq!(v.len(), 192);
    v
}

/// empty, all, every single flag and every all-minus-one
pub fn edge_extension_subsets() -> Vec<Extensions> {
    let mut v = vec![Extensions::empty(), Extensions::all()];
    for b in EXT_BITS {
        let single = if b == 11 { (1 << 11) | (1 << 1) } else { 1 << b };
        let e = Extensions::from_bits(single).unwrap();
        if !v.contains(&e) {
            v.push(e);
        }
        let minus = if b == 1 {
            // removing modifiers also removes intermediate preparations
            Extensions::all().bits() & !((1 << 1) | (1 << 11))
        } else {
            Extensions::all().bits() & !(1 << b)
        };
        let e = Extensions::from_bits(minus).unwrap();
        if !v.contains(&e) {
            v.push(e);
        }
    }
    v
}

#[derive(Clone, Copy, PartialEq, Eq, Debug)]
pub enum Conv {
    Empty,
    Bundled,
}

impl Conv {
    pub fn name(self) -> &'static str {
        match self {
            Conv::Empty => "empty",
            Conv::Bundled => "bundled",
        }
    }
    pub fn build(self) -> Converter {
        match self {
            Conv::Empty => Converter::empty(),
            Conv::Bundled => Converter::bundled(),
        }
    }
    pub fn from_name(s: &str) -> Conv {
        match s {
            "empty" => Conv::Empty,
            _ => Conv::Bundled,
        }
    }
}

pub struct Config {
    pub ext: Extensions,
    pub conv: Conv,
    pub parser: CooklangParser,
}

impl Config {
    pub fn new(ext: Extensions, conv: Conv) -> Self {
        Config {
            ext,
            conv,
            parser: CooklangParser::new(ext, conv.build()),
        }
    }
    pub fn describe(&self) -> serde_json::Value {
        serde_json::json!({"ext_bits": self.ext.bits(), "converter": self.conv.name()})
    }
    pub fn from_json(j: &serde_json::Value) -> Config {
        let bits = j["ext_bits"].as_u64().unwrap_or(0) as u32;
        let conv = Conv::from_name(j["converter"].as_str().unwrap_or("bundled"));
        Config::new(Extensions::from_bits(bits).expect("ext bits"), conv)
    }
}

pub fn configs(exts: &[Extensions], convs: &[Conv]) -> Vec<Config> {
    let mut v = Vec::new();
    for e in exts {
        for c in convs {
            v.push(Config::new(*e, *c));
        }
    }
    v
}

/// {empty, all} x {empty, bundled}
pub fn corner_configs() -> Vec<Config> {
    configs(
        &[Extensions::empty(), Extensions::all()],
        &[Conv::Empty, Conv::Bundled],
    )
}
