//! Engine E2: reference model of recipes, a printer with explicit spelling
//! choice points, the reference semantics `expected`, and the comparison of a
//! real parse result with it.
//!
//! The model is written from the documentation (README, extensions.md, the
//! grammar comment of the parser and the canonical test sources); it is kept
//! deliberately boring: vectors and linear scans.

use cooklang::quantity::{Number, ScalableValue, Value};
use cooklang::{Content, IngredientReferenceTarget, Item as RItem, Modifiers, ScalableRecipe};
use std::ops::Range;

// ---------------------------------------------------------------------------
// model

#[derive(Clone, Debug, PartialEq)]
pub enum Val {
    Int(u32),
    /// decimal number as written, e.g. "1.5"
    Dec(&'static str),
    Frac(u32, u32),
    Mixed(u32, u32, u32),
    Range(Box<Val>, Box<Val>),
    Text(&'static str),
}

#[derive(Clone, Debug, PartialEq)]
pub struct Qty {
    pub lock: bool,
    pub val: Val,
    pub unit: Option<&'static str>,
}

#[derive(Clone, Copy, Debug, PartialEq, Eq)]
pub enum Kind {
    Igr,
    Cw,
    Tm,
}

#[derive(Clone, Copy, Debug, PartialEq, Eq)]
pub struct Inter {
    pub relative: bool,
    pub section: bool,
    pub val: u16,
}

#[derive(Clone, Debug, PartialEq)]
pub struct Comp {
    pub kind: Kind,
    /// modifier characters in written order, subset of "@&-?+"
    pub mods: &'static str,
    pub inter: Option<Inter>,
    pub name: &'static str,
    pub alias: Option<&'static str>,
    pub qty: Option<Qty>,
    pub note: Option<&'static str>,
}

impl Comp {
    pub fn new(kind: Kind, name: &'static str) -> Comp {
        Comp { kind, mods: "", inter: None, name, alias: None, qty: None, note: None }
    }
    pub fn mods(mut self, m: &'static str) -> Comp {
        self.mods = m;
        self
    }
    pub fn qty(mut self, val: Val, unit: Option<&'static str>) -> Comp {
        self.qty = Some(Qty { lock: false, val, unit });
        self
    }
    pub fn locked(mut self) -> Comp {
        if let Some(q) = &mut self.qty {
            q.lock = true;
        }
        self
    }
    pub fn alias(mut self, a: &'static str) -> Comp {
        self.alias = Some(a);
        self
    }
    pub fn note(mut self, n: &'static str) -> Comp {
        self.note = Some(n);
        self
    }
    pub fn inter(mut self, relative: bool, section: bool, val: u16) -> Comp {
        self.inter = Some(Inter { relative, section, val });
        self
    }
}

#[derive(Clone, Debug, PartialEq)]
pub enum Item {
    /// words separated by single spaces; may start / end with a space; no digits
    Text(&'static str),
    /// a number and a unit written in step text ("180 C")
    InlineQ(&'static str, &'static str),
    Comp(Comp),
    /// verbatim source (used to plant invalid constructs, never part of a well-formed recipe)
    Raw(&'static str),
}

#[derive(Clone, Debug, PartialEq)]
pub enum Block {
    Section(Option<&'static str>),
    Step(Vec<Item>),
    /// text paragraph, one entry per source line
    Para(Vec<&'static str>),
    /// metadata entry: key, value text, value kind for front matter (true = integer)
    Meta(&'static str, &'static str, bool),
    /// `>> [key]: value`
    Switch(&'static str, &'static str),
}

#[derive(Clone, Debug, PartialEq)]
pub struct Recipe {
    pub blocks: Vec<Block>,
}

// ---------------------------------------------------------------------------
// spelling choices

#[derive(Clone, Debug)]
pub enum Mode {
    /// follow `prefix`, default (0) afterwards
    Prefix(Vec<u8>),
    /// take alternative `k % arity` at every site
    All(u8),
}

pub struct Chooser {
    mode: Mode,
    pub arities: Vec<u8>,
    pub taken: Vec<u8>,
    pub diverged: bool,
}

impl Chooser {
    pub fn new(mode: Mode) -> Self {
        Chooser { mode, arities: Vec::new(), taken: Vec::new(), diverged: false }
    }
    /// `arity` alternatives, 0 is the default spelling
    pub fn pick(&mut self, arity: u8) -> u8 {
        let pos = self.arities.len();
        let c = match &self.mode {
            Mode::Prefix(p) => {
                if pos < p.len() {
                    if p[pos] >= arity {
                        self.diverged = true;
                        0
                    } else {
                        p[pos]
                    }
                } else {
                    0
                }
            }
            Mode::All(k) => k % arity,
        };
        self.arities.push(arity);
        self.taken.push(c);
        c
    }
}

#[derive(Clone, Copy, Debug, PartialEq, Eq)]
pub struct Config {
    /// all extensions + bundled units (true) or canonical (false)
    pub extended: bool,
}

#[derive(Clone, Debug, Default)]
pub struct Printed {
    pub src: String,
    /// byte range of every component / raw item: (block index, item index, range)
    pub items: Vec<(usize, usize, Range<usize>)>,
    /// byte offsets where a line of Cooklang (not front matter) ends (position of its line break or end of input)
    pub line_ends: Vec<usize>,
    /// byte offsets right after a single space between two words where a block comment may be inserted
    pub gaps: Vec<usize>,
    /// byte offsets after a blank inside a numeric quantity value (a block comment may go there, a line break may not)
    pub value_gaps: Vec<usize>,
    /// byte offsets at the start of a block's first line (after the separator)
    pub block_starts: Vec<usize>,
    /// the source has a YAML front matter; Cooklang starts at this offset
    pub body_start: usize,
    pub uses_old_metadata: bool,
}

/// `gaps` receives the offsets after every blank written inside a numeric value (places where a block comment may go)
fn val_src(v: &Val, ch: &mut Chooser, out: &mut String, gaps: &mut Vec<usize>) {
    fn put(s: &str, out: &mut String, gaps: &mut Vec<usize>) {
        for c in s.chars() {
            out.push(c);
            if c == ' ' {
                gaps.push(out.len());
            }
        }
    }
    match v {
        Val::Int(n) => out.push_str(&n.to_string()),
        Val::Dec(s) => {
            // `0.25` may be written `.25`
            if s.starts_with("0.") && ch.pick(2) == 1 {
                out.push_str(&s[1..]);
            } else {
                out.push_str(s);
            }
        }
        Val::Frac(a, b) => {
            let pad = ch.pick(2) == 1;
            put(&if pad { format!("{a} / {b}") } else { format!("{a}/{b}") }, out, gaps);
        }
        Val::Mixed(w, a, b) => {
            let pad = ch.pick(2) == 1;
            put(&if pad { format!("{w} {a} / {b}") } else { format!("{w} {a}/{b}") }, out, gaps);
        }
        Val::Range(a, b) => {
            val_src(a, ch, out, gaps);
            let pad = ch.pick(2) == 1;
            put(if pad { " - " } else { "-" }, out, gaps);
            val_src(b, ch, out, gaps);
        }
        Val::Text(t) => out.push_str(t),
    }
}

fn is_single_word(name: &str) -> bool {
    !name.is_empty() && name.chars().all(|c| c.is_alphanumeric())
}

fn comp_src(c: &Comp, cfg: Config, ch: &mut Chooser, out: &mut String, gaps: &mut Vec<usize>, vgaps: &mut Vec<usize>) {
    out.push(match c.kind {
        Kind::Igr => '@',
        Kind::Cw => '#',
        Kind::Tm => '~',
    });
    // modifiers: written order or reversed; with intermediate data the `&` goes last
    if let Some(i) = c.inter {
        for m in c.mods.chars().filter(|m| *m != '&') {
            out.push(m);
        }
        out.push('&');
        let pad = ch.pick(2) == 1;
        let body = format!("{}{}{}", if i.section { "=" } else { "" }, if i.relative { "~" } else { "" }, i.val);
        out.push_str(&if pad { format!("( {body} )") } else { format!("({body})") });
    } else if c.mods.chars().count() > 1 {
        if ch.pick(2) == 1 {
            out.extend(c.mods.chars().rev());
        } else {
            out.push_str(c.mods);
        }
    } else {
        out.push_str(c.mods);
    }
    // name with inner gaps
    let mut first = true;
    for w in c.name.split(' ') {
        if !first {
            out.push(' ');
            gaps.push(out.len());
        }
        first = false;
        out.push_str(w);
    }
    if let Some(a) = c.alias {
        out.push('|');
        out.push_str(a);
    }
    let needs_braces = !is_single_word(c.name) || c.alias.is_some() || c.note.is_some() && false;
    match &c.qty {
        None => {
            let braces = needs_braces || c.note.is_some() || ch.pick(2) == 1;
            if braces {
                let pad = ch.pick(2) == 1;
                out.push_str(if pad { "{ }" } else { "{}" });
            }
        }
        Some(q) => {
            if ch.pick(2) == 1 {
                out.push(' '); // space between the name and the brace
            }
            out.push('{');
            let pad = match ch.pick(3) {
                1 => {
                    out.push(' ');
                    true
                }
                2 => {
                    out.push_str(" [- c -] ");
                    false
                }
                _ => false,
            };
            if q.lock {
                out.push('=');
                if ch.pick(2) == 1 {
                    out.push(' ');
                }
            }
            val_src(&q.val, ch, out, vgaps);
            if let Some(u) = q.unit {
                // `%` (default), ` % `, or a space instead of `%` (advanced units: numeric value, extended parser only)
                let numeric = !matches!(q.val, Val::Text(_));
                // 0 `%`, 1 ` % `, 2 `% [- c -]` (a comment inside the padding), 3 a space instead of `%`
                let arity = if cfg.extended && numeric { 4 } else { 3 };
                match ch.pick(arity) {
                    0 => out.push('%'),
                    1 => out.push_str(" % "),
                    2 => out.push_str("% [- c -]"),
                    _ => out.push(' '),
                }
                out.push_str(u);
            }
            if pad {
                out.push(' ');
            }
            out.push('}');
        }
    }
    if let Some(n) = c.note {
        out.push('(');
        out.push_str(n);
        out.push(')');
    }
}

/// `followed`: another item of the same step follows this text (then a trailing blank may be spelled as a line break)
fn text_src(t: &str, ch: &mut Chooser, out: &mut String, gaps: &mut Vec<usize>, allow_break: bool, followed: bool) {
    // words separated by single spaces; a space may be spelled as a line break,
    // a word's first character may be spelled with a backslash
    let mut first = true;
    let mut prev = "";
    let nwords = t.split(' ').count();
    for (wi, w) in t.split(' ').enumerate() {
        if !first {
            // never break before a word that would start a new kind of line, nor right after a
            // stray marker (a marker followed by a line break instead of a blank is diagnosed)
            let after_marker = prev.ends_with(['@', '#', '~', '-', '+', '?', '&']);
            let wrap_before_item = w.is_empty() && wi + 1 == nwords && followed;
            let risky = after_marker || (w.is_empty() && !wrap_before_item) || w.starts_with('>') || w.starts_with('=') || w.starts_with('-');
            if allow_break && !risky && !out.is_empty() && !out.ends_with('\n') && ch.pick(2) == 1 {
                out.push('\n');
            } else {
                out.push(' ');
                if !w.is_empty() && !after_marker {
                    gaps.push(out.len());
                    // a block comment glued to the next word (the space before it survives)
                    match ch.pick(3) {
                        1 => out.push_str("[- c -]"),
                        2 => out.push_str("[-- c --]"),
                        _ => {}
                    }
                }
            }
        }
        first = false;
        if !w.is_empty() && w.chars().next().map(|c| c.is_alphabetic()).unwrap_or(false) && ch.pick(2) == 1 {
            out.push('\\');
        }
        out.push_str(w);
        prev = w;
    }
}

pub fn print(r: &Recipe, cfg: Config, ch: &mut Chooser) -> Printed {
    let mut p = Printed::default();
    let has_meta = r.blocks.iter().any(|b| matches!(b, Block::Meta(..)));
    // metadata style: `>>` lines (default) or YAML front matter
    let front = has_meta && ch.pick(2) == 1;
    let mut out = String::new();
    if front {
        out.push_str("---\n");
        for b in &r.blocks {
            if let Block::Meta(k, v, is_int) = b {
                // plain or double-quoted scalar
                let quoted = !*is_int && ch.pick(2) == 1;
                if quoted {
                    out.push_str(&format!("{k}: \"{v}\"\n"));
                } else {
                    out.push_str(&format!("{k}: {v}\n"));
                }
            }
        }
        out.push_str("---\n");
    } else if ch.pick(2) == 1 {
        out.push('\n'); // leading blank line
    }
    p.body_start = out.len();
    p.uses_old_metadata = has_meta && !front;
    let mut prev_single_line = true; // start of file behaves like after a single-line block
    let mut first_block = true;
    for (bi, b) in r.blocks.iter().enumerate() {
        if front && matches!(b, Block::Meta(..)) {
            continue;
        }
        let single_line = matches!(b, Block::Meta(..) | Block::Switch(..) | Block::Section(_));
        if !first_block {
            // separator between blocks
            let can_be_tight = prev_single_line || single_line;
            let arity = if can_be_tight { 4 } else { 3 };
            // finish the previous line
            p.line_ends.push(out.len());
            out.push('\n');
            match ch.pick(arity) {
                0 => {
                    if !can_be_tight {
                        out.push('\n')
                    } else if !(prev_single_line || single_line) {
                        out.push('\n')
                    }
                }
                1 => out.push_str(" \n"),
                2 => out.push_str("-- c\n"),
                _ => out.push('\n'),
            }
        }
        first_block = false;
        p.block_starts.push(out.len());
        match b {
            Block::Meta(k, v, _) => {
                match ch.pick(3) {
                    0 => out.push_str(&format!(">> {k}: {v}")),
                    1 => out.push_str(&format!(">>{k}:{v}")),
                    _ => out.push_str(&format!(">>  {k} :  {v}")),
                }
            }
            Block::Switch(k, v) => {
                // documented synonyms of the key and of the value
                let alt = ch.pick(2) == 1;
                let (k2, v2) = match (*k, *v, alt) {
                    ("mode", "all", true) => ("define", "default"),
                    ("mode", "components", true) => ("define", "ingredients"),
                    ("mode", v, true) => ("define", v),
                    ("duplicate", "new", true) => ("duplicate", "default"),
                    ("duplicate", "ref", true) => ("duplicate", "reference"),
                    (k, v, _) => (k, v),
                };
                out.push_str(&format!(">> [{k2}]: {v2}"));
            }
            Block::Section(name) => match name {
                None => out.push_str(if ch.pick(2) == 1 { "==" } else { "=" }),
                Some(n) => match ch.pick(4) {
                    0 => out.push_str(&format!("= {n}")),
                    1 => out.push_str(&format!("== {n} ==")),
                    2 => out.push_str(&format!("={n}=")),
                    _ => out.push_str(&format!("= {n} =")),
                },
            },
            Block::Para(lines) => {
                for (li, l) in lines.iter().enumerate() {
                    if li > 0 {
                        p.line_ends.push(out.len());
                        out.push('\n');
                    }
                    if li == 0 || ch.pick(2) == 0 {
                        out.push_str("> ");
                    }
                    text_src(l, ch, &mut out, &mut p.gaps, false, false);
                }
            }
            Block::Step(items) => {
                for (ii, it) in items.iter().enumerate() {
                    match it {
                        Item::Text(t) => text_src(t, ch, &mut out, &mut p.gaps, true, ii + 1 < items.len()),
                        Item::InlineQ(n, u) => {
                            out.push_str(n);
                            out.push(' ');
                            p.gaps.push(out.len());
                            out.push_str(u);
                        }
                        Item::Comp(c) => {
                            let start = out.len();
                            comp_src(c, cfg, ch, &mut out, &mut p.gaps, &mut p.value_gaps);
                            p.items.push((bi, ii, start..out.len()));
                        }
                        Item::Raw(s) => {
                            let start = out.len();
                            out.push_str(s);
                            p.items.push((bi, ii, start..out.len()));
                        }
                    }
                }
                // trailing line comment glued to the last character
                if ch.pick(2) == 1 {
                    out.push_str("-- c");
                }
            }
        }
        prev_single_line = single_line;
    }
    p.line_ends.push(out.len());
    // final newline or not
    if ch.pick(2) == 0 {
        out.push('\n');
    }
    // line endings
    if ch.pick(2) == 1 {
        // CRLF: offsets recorded above refer to the LF text; remap them
        let mut map = Vec::with_capacity(out.len() + 1);
        let mut extra = 0;
        for (i, b) in out.bytes().enumerate() {
            let _ = i;
            map.push(extra);
            if b == b'\n' {
                extra += 1;
            }
        }
        map.push(extra);
        let remap = |x: usize| x + map[x];
        for (_, _, r) in p.items.iter_mut() {
            *r = remap(r.start)..remap(r.end);
        }
        for x in p.line_ends.iter_mut().chain(p.gaps.iter_mut()).chain(p.value_gaps.iter_mut()).chain(p.block_starts.iter_mut()) {
            *x = remap(*x);
        }
        p.body_start = remap(p.body_start);
        out = out.replace('\n', "\r\n");
    }
    p.src = out;
    p
}

// ---------------------------------------------------------------------------
// reference semantics

#[derive(Clone, Debug, PartialEq)]
pub enum XNum {
    Regular(f64),
    Fraction(u32, u32, u32),
}

#[derive(Clone, Debug, PartialEq)]
pub enum XVal {
    Number(XNum),
    Range(XNum, XNum),
    Text(String),
}

#[derive(Clone, Debug, PartialEq)]
pub enum XRel {
    Def { referenced_from: Vec<usize>, in_step: bool },
    RefIngredient(usize),
    RefStep(usize),
    RefSection(usize),
}

#[derive(Clone, Debug, PartialEq)]
pub struct XComp {
    pub name: String,
    pub alias: Option<String>,
    /// value, linear, unit
    pub qty: Option<(XVal, bool, Option<String>)>,
    pub note: Option<String>,
    /// sorted modifier names
    pub mods: Vec<&'static str>,
    pub rel: XRel,
    /// recipe reference path components (ingredients written as ./a/b)
    pub path: Option<Vec<String>>,
}

#[derive(Clone, Debug, PartialEq)]
pub enum XItem {
    Text(String),
    Igr(usize),
    Cw(usize),
    Tm(usize),
    Inline(usize),
}

#[derive(Clone, Debug, PartialEq)]
pub enum XContent {
    Step { number: u32, items: Vec<XItem> },
    Text(String),
}

#[derive(Clone, Debug, PartialEq, Default)]
pub struct XRecipe {
    pub metadata: Vec<(String, String, bool)>,
    pub sections: Vec<(Option<String>, Vec<XContent>)>,
    pub igr: Vec<XComp>,
    pub cw: Vec<XComp>,
    pub tm: Vec<XComp>,
    pub inline: Vec<(f64, String)>,
}

fn num_sem(v: &Val) -> Option<XNum> {
    Some(match v {
        Val::Int(n) => XNum::Regular(*n as f64),
        Val::Dec(s) => XNum::Regular(s.parse::<f64>().ok()?),
        Val::Frac(a, b) => XNum::Fraction(0, *a, *b),
        Val::Mixed(w, a, b) => XNum::Fraction(*w, *a, *b),
        _ => return None,
    })
}

fn plain_val_text(v: &Val) -> String {
    match v {
        Val::Int(n) => n.to_string(),
        Val::Dec(s) => s.to_string(),
        Val::Frac(a, b) => format!("{a}/{b}"),
        Val::Mixed(w, a, b) => format!("{w} {a}/{b}"),
        Val::Range(a, b) => format!("{}-{}", plain_val_text(a), plain_val_text(b)),
        Val::Text(t) => t.to_string(),
    }
}

fn val_sem(v: &Val, cfg: Config) -> XVal {
    match v {
        Val::Text(t) => XVal::Text(t.to_string()),
        Val::Range(a, b) => {
            if cfg.extended {
                XVal::Range(num_sem(a).expect("numeric range"), num_sem(b).expect("numeric range"))
            } else {
                XVal::Text(plain_val_text(v))
            }
        }
        other => XVal::Number(num_sem(other).expect("numeric")),
    }
}

fn mod_names(m: &str) -> Vec<&'static str> {
    let mut v: Vec<&'static str> = m
        .chars()
        .map(|c| match c {
            '@' => "RECIPE",
            '&' => "REF",
            '-' => "HIDDEN",
            '?' => "OPT",
            '+' => "NEW",
            _ => "?",
        })
        .collect();
    v.sort();
    v.dedup();
    v
}

#[derive(Clone, Copy, PartialEq, Eq)]
enum DefMode {
    All,
    Components,
    Steps,
    Text,
}

const KNOWN_INLINE_UNITS: [&str; 8] = ["C", "F", "min", "kg", "g", "cups", "l", "h"];

/// Reference semantics. Returns `Err(reason)` when the recipe is not
/// well-formed (e.g. a dangling reference), so that generators can skip it.
pub fn expected(r: &Recipe, cfg: Config) -> Result<XRecipe, String> {
    let mut x = XRecipe::default();
    let mut cur: (Option<String>, Vec<XContent>) = (None, Vec::new());
    let mut step_counter = 1u32;
    let mut mode = DefMode::All;
    let mut dup_ref = false;
    let same_name = |a: &str, b: &str| a.to_lowercase() == b.to_lowercase();
    for b in &r.blocks {
        match b {
            Block::Meta(k, v, is_int) => x.metadata.push((k.to_string(), v.to_string(), *is_int)),
            Block::Switch(k, v) => {
                if !cfg.extended {
                    return Err("mode switches need the extension".into());
                }
                match (*k, *v) {
                    ("mode" | "define", "all" | "default") => mode = DefMode::All,
                    ("mode" | "define", "components" | "ingredients") => mode = DefMode::Components,
                    ("mode" | "define", "steps") => mode = DefMode::Steps,
                    ("mode" | "define", "text") => mode = DefMode::Text,
                    ("duplicate", "new" | "default") => dup_ref = false,
                    ("duplicate", "reference" | "ref") => dup_ref = true,
                    _ => return Err("unknown switch".into()),
                }
            }
            Block::Section(name) => {
                step_counter = 1;
                if cur.0.is_some() || !cur.1.is_empty() {
                    x.sections.push(std::mem::replace(&mut cur, (None, Vec::new())));
                }
                cur = (name.map(|s| s.to_string()), Vec::new());
            }
            Block::Para(lines) => {
                if lines.is_empty() {
                    return Err("empty paragraph".into());
                }
                cur.1.push(XContent::Text(lines.join(" ")));
            }
            Block::Step(items) => {
                if mode == DefMode::Text {
                    // every step is a text paragraph; components would be ignored with a warning
                    let mut t = String::new();
                    for it in items {
                        match it {
                            Item::Text(s) => t.push_str(s),
                            Item::InlineQ(n, u) => t.push_str(&format!("{n} {u}")),
                            _ => return Err("component in text mode".into()),
                        }
                    }
                    cur.1.push(XContent::Text(t));
                    continue;
                }
                let mut out_items: Vec<XItem> = Vec::new();
                let mut run = String::new();
                // pending inline quantities inside the current text run: (offset in run, len, value, unit)
                let mut run_inline: Vec<(usize, usize, f64, String)> = Vec::new();
                macro_rules! flush {
                    () => {{
                        if !run.is_empty() {
                            let mut pos = 0usize;
                            for (off, len, v, u) in run_inline.drain(..) {
                                if off > pos {
                                    out_items.push(XItem::Text(run[pos..off].to_string()));
                                }
                                x.inline.push((v, u));
                                out_items.push(XItem::Inline(x.inline.len() - 1));
                                pos = off + len;
                            }
                            if pos < run.len() {
                                out_items.push(XItem::Text(run[pos..].to_string()));
                            }
                            run.clear();
                        }
                    }};
                }
                for it in items {
                    match it {
                        Item::Raw(_) => return Err("raw item".into()),
                        Item::Text(s) => {
                            if s.chars().any(|c| c.is_ascii_digit()) {
                                return Err("digits in plain text".into());
                            }
                            if mode == DefMode::Components {
                                if s.chars().any(|c| c.is_alphanumeric()) {
                                    return Err("text in components mode".into());
                                }
                                continue;
                            }
                            run.push_str(s);
                        }
                        Item::InlineQ(n, u) => {
                            if mode == DefMode::Components {
                                return Err("text in components mode".into());
                            }
                            if cfg.extended {
                                if !KNOWN_INLINE_UNITS.contains(u) {
                                    return Err("inline unit not in the model's list".into());
                                }
                                let text = format!("{n} {u}");
                                run_inline.push((run.len(), text.len(), n.parse::<f64>().map_err(|e| e.to_string())?, u.to_string()));
                                run.push_str(&text);
                            } else {
                                run.push_str(&format!("{n} {u}"));
                            }
                        }
                        Item::Comp(c) => {
                            if mode != DefMode::Components {
                                flush!();
                            }
                            if !cfg.extended && (!c.mods.is_empty() || c.alias.is_some() || c.inter.is_some() || c.note.is_some() && c.kind == Kind::Tm) {
                                return Err("extension syntax in a canonical recipe".into());
                            }
                            let qty = c.qty.as_ref().map(|q| {
                                let v = val_sem(&q.val, cfg);
                                let is_text = matches!(v, XVal::Text(_));
                                (v, c.kind == Kind::Igr && !is_text && !q.lock, q.unit.map(|u| u.to_string()))
                            });
                            if let Some(q) = &c.qty {
                                if let Val::Text(t) = &q.val {
                                    let digit_first = t.chars().next().map(|c| c.is_ascii_digit()).unwrap_or(false);
                                    if digit_first && (q.unit.is_none() && cfg.extended || c.kind == Kind::Tm && cfg.extended) {
                                        return Err("number followed by words without `%` (read as a unit by the advanced-units extension)".into());
                                    }
                                }
                                if q.lock && (c.kind != Kind::Igr || matches!(q.val, Val::Text(_))) {
                                    return Err("scaling lock without effect (warning)".into());
                                }
                                if c.kind == Kind::Cw && q.unit.is_some() {
                                    return Err("unit on cookware".into());
                                }
                                if c.kind == Kind::Tm && q.unit.is_none() {
                                    return Err("timer without unit".into());
                                }
                            }
                            match c.kind {
                                Kind::Tm => {
                                    if !c.mods.is_empty() || c.alias.is_some() || c.note.is_some() || c.inter.is_some() {
                                        return Err("timer with modifiers/alias/note".into());
                                    }
                                    if cfg.extended {
                                        // TIMER_REQUIRES_TIME + ADVANCED_UNITS
                                        match &c.qty {
                                            None => return Err("timer needs a duration".into()),
                                            Some(q) => {
                                                if matches!(q.val, Val::Text(_)) || !matches!(q.unit, Some("min" | "h" | "s" | "hours" | "minutes" | "d")) {
                                                    return Err("timer needs a numeric time quantity".into());
                                                }
                                            }
                                        }
                                    } else if c.name.is_empty() && c.qty.is_none() {
                                        return Err("timer needs a name or a quantity".into());
                                    }
                                    x.tm.push(XComp {
                                        name: c.name.to_string(),
                                        alias: None,
                                        qty: qty.map(|(v, _, u)| (v, false, u)),
                                        note: None,
                                        mods: vec![],
                                        rel: XRel::Def { referenced_from: vec![], in_step: true },
                                        path: None,
                                    });
                                    out_items.push(XItem::Tm(x.tm.len() - 1));
                                }
                                Kind::Igr | Kind::Cw => {
                                    if c.name.is_empty() {
                                        return Err("empty name".into());
                                    }
                                    let is_igr = c.kind == Kind::Igr;
                                    let mut mods = mod_names(c.mods);
                                    if !is_igr && mods.contains(&"RECIPE") {
                                        return Err("recipe modifier on cookware".into());
                                    }
                                    // recipe path
                                    let (name, path) = if is_igr && (c.name.starts_with("./") || c.name.starts_with("../")) {
                                        let mut comps: Vec<String> = c.name.split('/').map(String::from).skip(1).collect();
                                        let stem = comps.pop().unwrap_or_default();
                                        (stem, Some(comps))
                                    } else {
                                        (c.name.to_string(), None)
                                    };
                                    let table_len = if is_igr { x.igr.len() } else { x.cw.len() };
                                    let mut rel = XRel::Def { referenced_from: vec![], in_step: mode != DefMode::Components };
                                    if let Some(i) = c.inter {
                                        if !is_igr {
                                            return Err("intermediate reference on cookware".into());
                                        }
                                        if !mods.contains(&"REF") || mods.iter().any(|m| !matches!(*m, "REF" | "OPT")) {
                                            return Err("intermediate reference with forbidden modifiers".into());
                                        }
                                        if i.val == 0 {
                                            return Err("intermediate reference 0".into());
                                        }
                                        let steps: Vec<usize> = cur.1.iter().enumerate().filter(|(_, c)| matches!(c, XContent::Step { .. })).map(|(i, _)| i).collect();
                                        rel = match (i.section, i.relative) {
                                            (false, false) => XRel::RefStep(*steps.get(i.val as usize - 1).ok_or("step out of range")?),
                                            (false, true) => {
                                                let n = steps.len();
                                                if i.val as usize > n {
                                                    return Err("step out of range".into());
                                                }
                                                XRel::RefStep(steps[n - i.val as usize])
                                            }
                                            (true, false) => {
                                                if i.val as usize > x.sections.len() {
                                                    return Err("section out of range".into());
                                                }
                                                XRel::RefSection(i.val as usize - 1)
                                            }
                                            (true, true) => {
                                                if i.val as usize > x.sections.len() {
                                                    return Err("section out of range".into());
                                                }
                                                XRel::RefSection(x.sections.len() - i.val as usize)
                                            }
                                        };
                                        if c.note.is_some() {
                                            // notes are only rejected on ingredient references; keep the model conservative
                                            return Err("note on an intermediate reference".into());
                                        }
                                    } else {
                                        let has_new = mods.contains(&"NEW");
                                        let has_ref = mods.contains(&"REF");
                                        if has_new && has_ref {
                                            return Err("new and ref".into());
                                        }
                                        let table = if is_igr { &x.igr } else { &x.cw };
                                        let target = table.iter().rposition(|o| !o.mods.contains(&"REF") && same_name(&o.name, &name));
                                        if has_new {
                                            // `+` is only free of warnings where it changes something
                                            let useful = mode == DefMode::Steps || (dup_ref && target.is_some());
                                            if !useful {
                                                return Err("redundant new modifier (warning)".into());
                                            }
                                        } else {
                                            if has_ref && (dup_ref || mode == DefMode::Steps) {
                                                return Err("redundant reference modifier (warning)".into());
                                            }
                                            let as_ref = has_ref || mode == DefMode::Steps || (dup_ref && target.is_some());
                                            if as_ref {
                                                let t = target.ok_or("dangling reference")?;
                                                let def = &table[t];
                                                let inheritable: &[&str] = if is_igr { &["HIDDEN", "OPT", "RECIPE"] } else { &["HIDDEN", "OPT"] };
                                                let inherited: Vec<&'static str> = def.mods.iter().copied().filter(|m| inheritable.contains(m)).collect();
                                                if mods.iter().any(|m| *m != "REF" && !inherited.contains(m)) {
                                                    return Err("reference with a modifier its definition lacks".into());
                                                }
                                                for m in inherited {
                                                    if !mods.contains(&m) {
                                                        mods.push(m);
                                                    }
                                                }
                                                if !mods.contains(&"REF") {
                                                    mods.push("REF");
                                                }
                                                if c.note.is_some() {
                                                    return Err("note on a reference".into());
                                                }
                                                let def_in_step = matches!(def.rel, XRel::Def { in_step: true, .. });
                                                if def.qty.is_some() && qty.is_some() && !def_in_step {
                                                    return Err("reference with quantity to a components-mode definition with quantity".into());
                                                }
                                                // unit compatibility and text/number mix give warnings: keep them out
                                                let all_q: Vec<&(XVal, bool, Option<String>)> = std::iter::once(t)
                                                    .chain(match &def.rel {
                                                        XRel::Def { referenced_from, .. } => referenced_from.clone(),
                                                        _ => vec![],
                                                    })
                                                    .filter_map(|i| table[i].qty.as_ref())
                                                    .collect();
                                                if let Some(nq) = &qty {
                                                    for oq in all_q {
                                                        if oq.2 != nq.2 {
                                                            return Err("references with different units (warning)".into());
                                                        }
                                                    }
                                                    if let Some(dq) = &def.qty {
                                                        if matches!(dq.0, XVal::Text(_)) != matches!(nq.0, XVal::Text(_)) {
                                                            return Err("text and numeric quantities mixed in references (warning)".into());
                                                        }
                                                    }
                                                }
                                                rel = XRel::RefIngredient(t);
                                                let table = if is_igr { &mut x.igr } else { &mut x.cw };
                                                if let XRel::Def { referenced_from, .. } = &mut table[t].rel {
                                                    referenced_from.push(table_len);
                                                }
                                            }
                                        }
                                    }
                                    mods.sort();
                                    let xc = XComp { name, alias: c.alias.map(|s| s.to_string()), qty, note: c.note.map(|s| s.to_string()), mods, rel, path };
                                    if is_igr {
                                        x.igr.push(xc);
                                        out_items.push(XItem::Igr(table_len));
                                    } else {
                                        x.cw.push(xc);
                                        out_items.push(XItem::Cw(table_len));
                                    }
                                }
                            }
                        }
                    }
                }
                if mode != DefMode::Components {
                    flush!();
                    if out_items.is_empty() {
                        return Err("empty step".into());
                    }
                    cur.1.push(XContent::Step { number: step_counter, items: out_items });
                    step_counter += 1;
                }
            }
        }
    }
    if cur.0.is_some() || !cur.1.is_empty() {
        x.sections.push(cur);
    }
    Ok(x)
}

// ---------------------------------------------------------------------------
// comparison with the real result

fn num_obs(n: &Number) -> XNum {
    match n {
        Number::Regular(v) => XNum::Regular(*v),
        Number::Fraction { whole, num, den, .. } => XNum::Fraction(*whole, *num, *den),
    }
}

fn value_obs(v: &Value) -> XVal {
    match v {
        Value::Number(n) => XVal::Number(num_obs(n)),
        Value::Range { start, end } => XVal::Range(num_obs(start), num_obs(end)),
        Value::Text(t) => XVal::Text(t.clone()),
    }
}

fn sval_obs(v: &ScalableValue) -> (XVal, bool) {
    match v {
        ScalableValue::Fixed(v) => (value_obs(v), false),
        ScalableValue::Linear(v) => (value_obs(v), true),
    }
}

fn mods_obs(m: Modifiers) -> Vec<&'static str> {
    let mut v = Vec::new();
    for (flag, name) in [(Modifiers::RECIPE, "RECIPE"), (Modifiers::REF, "REF"), (Modifiers::HIDDEN, "HIDDEN"), (Modifiers::OPT, "OPT"), (Modifiers::NEW, "NEW")] {
        if m.contains(flag) {
            v.push(name);
        }
    }
    v.sort();
    v
}

pub fn observe(r: &ScalableRecipe) -> XRecipe {
    let mut x = XRecipe::default();
    for (k, v) in r.metadata.map.iter() {
        let (text, is_int) = match v {
            serde_yaml::Value::String(s) => (s.clone(), false),
            serde_yaml::Value::Number(n) => (n.to_string(), true),
            other => (format!("{other:?}"), false),
        };
        x.metadata.push((k.as_str().map(|s| s.to_string()).unwrap_or_else(|| format!("{k:?}")), text, is_int));
    }
    for s in &r.sections {
        let mut content = Vec::new();
        for c in &s.content {
            content.push(match c {
                Content::Text(t) => XContent::Text(t.clone()),
                Content::Step(st) => XContent::Step {
                    number: st.number,
                    items: st
                        .items
                        .iter()
                        .map(|i| match i {
                            RItem::Text { value } => XItem::Text(value.clone()),
                            RItem::Ingredient { index } => XItem::Igr(*index),
                            RItem::Cookware { index } => XItem::Cw(*index),
                            RItem::Timer { index } => XItem::Tm(*index),
                            RItem::InlineQuantity { index } => XItem::Inline(*index),
                        })
                        .collect(),
                },
            });
        }
        x.sections.push((s.name.clone(), content));
    }
    for i in &r.ingredients {
        let rel = match i.relation.references_to() {
            Some((t, IngredientReferenceTarget::Ingredient)) => XRel::RefIngredient(t),
            Some((t, IngredientReferenceTarget::Step)) => XRel::RefStep(t),
            Some((t, IngredientReferenceTarget::Section)) => XRel::RefSection(t),
            None => XRel::Def { referenced_from: i.relation.referenced_from().to_vec(), in_step: i.relation.is_defined_in_step().unwrap_or(true) },
        };
        x.igr.push(XComp {
            name: i.name.clone(),
            alias: i.alias.clone(),
            qty: i.quantity.as_ref().map(|q| {
                let (v, l) = sval_obs(q.value());
                (v, l, q.unit().map(|u| u.to_string()))
            }),
            note: i.note.clone(),
            mods: mods_obs(i.modifiers()),
            rel,
            path: i.reference.as_ref().map(|r| r.components.clone()),
        });
    }
    for i in &r.cookware {
        let rel = match i.relation.references_to() {
            Some(t) => XRel::RefIngredient(t),
            None => XRel::Def { referenced_from: i.relation.referenced_from().to_vec(), in_step: i.relation.is_defined_in_step().unwrap_or(true) },
        };
        x.cw.push(XComp {
            name: i.name.clone(),
            alias: i.alias.clone(),
            qty: i.quantity.as_ref().map(|q| {
                let (v, l) = sval_obs(q);
                (v, l, None)
            }),
            note: i.note.clone(),
            mods: mods_obs(i.modifiers()),
            rel,
            path: None,
        });
    }
    for t in &r.timers {
        x.tm.push(XComp {
            name: t.name.clone().unwrap_or_default(),
            alias: None,
            qty: t.quantity.as_ref().map(|q| {
                let (v, l) = sval_obs(q.value());
                (v, l, q.unit().map(|u| u.to_string()))
            }),
            note: None,
            mods: vec![],
            rel: XRel::Def { referenced_from: vec![], in_step: true },
            path: None,
        });
    }
    for q in &r.inline_quantities {
        let v = match q.value() {
            Value::Number(n) => n.value(),
            _ => f64::NAN,
        };
        x.inline.push((v, q.unit().unwrap_or("").to_string()));
    }
    x
}

/// Step text is compared after joining adjacent text items; nothing else is normalised.
fn join_text(items: &[XItem]) -> Vec<XItem> {
    let mut out: Vec<XItem> = Vec::new();
    for i in items {
        if let (XItem::Text(t), Some(XItem::Text(last))) = (i, out.last_mut()) {
            last.push_str(t);
            continue;
        }
        out.push(i.clone());
    }
    out
}

/// first difference between the expected and the observed recipe, if any
pub fn diff(exp: &XRecipe, got: &XRecipe) -> Option<String> {
    if exp.metadata != got.metadata {
        return Some(format!("metadata: expected {:?}, got {:?}", exp.metadata, got.metadata));
    }
    if exp.sections.len() != got.sections.len() {
        return Some(format!("sections: expected {:?}, got {:?}", exp.sections, got.sections));
    }
    for (si, (e, g)) in exp.sections.iter().zip(&got.sections).enumerate() {
        if e.0 != g.0 {
            return Some(format!("section {si} name: expected {:?}, got {:?}", e.0, g.0));
        }
        if e.1.len() != g.1.len() {
            return Some(format!("section {si} content: expected {:?}, got {:?}", e.1, g.1));
        }
        for (ci, (ec, gc)) in e.1.iter().zip(&g.1).enumerate() {
            let same = match (ec, gc) {
                (XContent::Text(a), XContent::Text(b)) => a == b,
                (XContent::Step { number: n1, items: i1 }, XContent::Step { number: n2, items: i2 }) => n1 == n2 && join_text(i1) == join_text(i2),
                _ => false,
            };
            if !same {
                return Some(format!("section {si} content {ci}: expected {ec:?}, got {gc:?}"));
            }
        }
    }
    for (what, e, g) in [("ingredient", &exp.igr, &got.igr), ("cookware", &exp.cw, &got.cw), ("timer", &exp.tm, &got.tm)] {
        if e.len() != g.len() {
            return Some(format!("{what} count: expected {e:?}, got {g:?}"));
        }
        for (i, (a, b)) in e.iter().zip(g).enumerate() {
            if a != b {
                return Some(format!("{what} {i}: expected {a:?}, got {b:?}"));
            }
        }
    }
    if exp.inline != got.inline {
        return Some(format!("inline quantities: expected {:?}, got {:?}", exp.inline, got.inline));
    }
    None
}

// ---------------------------------------------------------------------------
// deviation-bounded exploration of spellings

/// Calls `f(printed, choices)` for every spelling with at most `max_dev`
/// non-default choices, then for the all-alternatives spellings. Returns the
/// number of spellings and the total number of choice points seen.
pub fn for_each_spelling(r: &Recipe, cfg: Config, max_dev: usize, all_alt: bool, f: &mut dyn FnMut(&Printed, &[u8]) -> bool) -> (u64, u64) {
    let mut count = 0u64;
    let mut points = 0u64;
    let mut stack: Vec<Vec<u8>> = vec![vec![]];
    let mut seen_src: std::collections::HashSet<u64> = std::collections::HashSet::new();
    while let Some(prefix) = stack.pop() {
        let mut ch = Chooser::new(Mode::Prefix(prefix.clone()));
        let p = print(r, cfg, &mut ch);
        assert!(!ch.diverged, "spelling prefix diverged");
        points += ch.arities.len() as u64;
        if seen_src.insert(crate::common::fx_hash_str(&p.src)) {
            count += 1;
            if !f(&p, &ch.taken) {
                return (count, points);
            }
        }
        let dev = prefix.iter().filter(|&&c| c != 0).count();
        if dev < max_dev {
            for i in prefix.len()..ch.arities.len() {
                for alt in 1..ch.arities[i] {
                    let mut q = ch.taken[..i].to_vec();
                    q.push(alt);
                    stack.push(q);
                }
            }
        }
    }
    if all_alt {
        for k in 1..=3u8 {
            let mut ch = Chooser::new(Mode::All(k));
            let p = print(r, cfg, &mut ch);
            if seen_src.insert(crate::common::fx_hash_str(&p.src)) {
                count += 1;
                if !f(&p, &ch.taken) {
                    return (count, points);
                }
            }
        }
    }
    (count, points)
}
