#!/bin/bash
# usage: tools/seed_matrix.sh <outdir> <seed dir>...   runs every quick check against every seeded change
OUT=$1; shift; mkdir -p "$OUT"
SAVE=$(mktemp -d); cp -a /verif/evidence/. "$SAVE"/
for D in "$@"; do
  name=$(basename $(dirname "$D"))-$(basename "$D"); name=${name#seed-}
  [ -f "$D/patch.diff" ] || continue
  if [ -n "$(git -C /repo status --porcelain --untracked-files=no)" ]; then echo "/repo not clean"; exit 2; fi
  git -C /repo apply "$D/patch.diff" || { echo "$name: patch does not apply" > "$OUT/$name.txt"; continue; }
  : > "$OUT/$name.txt"
  for id in C01 C02 C03 C04 C05 C06 C07 C08 C09 C10 C11 C12 C13 C14 C15 C16 C17 C18 C19; do
    out=$(/verif/check $id quick 2>&1); code=$?
    echo "$id exit=$code $(echo "$out" | grep -E 'violation class' | sed 's/^ *violation class \[\([^]]*\)\].*/\1/' | cut -c1-100 | head -3 | tr '\n' '|')" >> "$OUT/$name.txt"
  done
  git -C /repo checkout -- .
done
rm -rf /verif/evidence; mkdir -p /verif/evidence; cp -a "$SAVE"/. /verif/evidence/; rm -rf "$SAVE" /verif/replays/*
echo done > "$OUT/DONE"
