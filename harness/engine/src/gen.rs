//! Recipe generators for engine E2: structure layers L1 (one component, full
//! cross product of its features), L2 (two or three components over a reduced
//! alphabet chosen to collide) and L3 (block structure).

use crate::e2::*;

fn t(s: &'static str) -> Item {
    Item::Text(s)
}
fn c(comp: Comp) -> Item {
    Item::Comp(comp)
}

/// L1: every component shape of the configuration
pub fn l1_components(cfg: Config) -> Vec<Comp> {
    let mut out = Vec::new();
    let names: &[&'static str] = &["salt", "olive oil", "ñu", "tipo 00 flour", "5peppers"];
    let mut vals = vec![Val::Int(3), Val::Dec("1.5"), Val::Dec("0.25"), Val::Dec("0.05"), Val::Frac(1, 2), Val::Mixed(1, 1, 2), Val::Text("a few"), Val::Text("2 heaped"), Val::Text("1 1/2 heaped")];
    if cfg.extended {
        vals.push(Val::Range(Box::new(Val::Int(2)), Box::new(Val::Int(3))));
        vals.push(Val::Range(Box::new(Val::Dec("1.5")), Box::new(Val::Mixed(2, 1, 2))));
    } else {
        vals.push(Val::Text("two small"));
    }
    let units: &[Option<&'static str>] = &[None, Some("g"), Some("cups"), Some("fl oz")];
    let igr_mods: &[&'static str] = if cfg.extended { &["", "?", "-", "@", "-?", "@?"] } else { &[""] };
    let cw_mods: &[&'static str] = if cfg.extended { &["", "?", "-"] } else { &[""] };
    let aliases: &[Option<&'static str>] = if cfg.extended { &[None, Some("oil")] } else { &[None] };
    for kind in [Kind::Igr, Kind::Cw] {
        let mods = if kind == Kind::Igr { igr_mods } else { cw_mods };
        for name in names {
            for m in mods {
                for alias in aliases {
                    for note in [None, Some("finely chopped")] {
                        let base = Comp { kind, mods: m, inter: None, name, alias: *alias, qty: None, note };
                        out.push(base.clone());
                        for v in &vals {
                            for u in units {
                                if kind == Kind::Cw && u.is_some() {
                                    continue;
                                }
                                let numeric = !matches!(v, Val::Text(_));
                                let mut x = base.clone();
                                x.qty = Some(Qty { lock: false, val: v.clone(), unit: *u });
                                out.push(x.clone());
                                if kind == Kind::Igr && numeric {
                                    x.qty.as_mut().unwrap().lock = true;
                                    out.push(x);
                                }
                            }
                        }
                    }
                }
            }
        }
    }
    // recipe references with a path
    if cfg.extended {
        out.push(Comp::new(Kind::Igr, "./sauces/tomato sauce").mods("@").qty(Val::Int(200), Some("ml")));
        out.push(Comp::new(Kind::Igr, "../base/dough").mods("@"));
        out.push(Comp::new(Kind::Igr, "./pesto").mods("@").alias("green sauce"));
    }
    // timers
    if cfg.extended {
        for name in ["", "rest", "slow boil"] {
            for v in vals.iter().filter(|v| !matches!(v, Val::Text(_))) {
                for u in ["min", "h", "s", "minutes"] {
                    out.push(Comp::new(Kind::Tm, name).qty(v.clone(), Some(u)));
                }
            }
        }
    } else {
        for name in ["rest", "eggs", "slow boil"] {
            out.push(Comp::new(Kind::Tm, name));
            for v in &vals {
                for u in ["minutes", "hour"] {
                    out.push(Comp::new(Kind::Tm, name).qty(v.clone(), Some(u)));
                }
            }
        }
        for v in &vals {
            out.push(Comp::new(Kind::Tm, "").qty(v.clone(), Some("min")));
        }
    }
    out
}

pub const L1_CONTEXTS: usize = 5;

pub fn l1_recipe(comp: &Comp, ctx: usize) -> Recipe {
    let items = match ctx {
        0 => vec![c(comp.clone())],
        1 => vec![t("Add "), c(comp.clone()), t(" and stir well.")],
        2 => vec![t("Mix the "), c(comp.clone())],
        3 => vec![t("Añade é "), c(comp.clone()), t(" y más ñ")],
        _ => vec![c(comp.clone()), t(" then rest, wait")],
    };
    Recipe { blocks: vec![Block::Step(items)] }
}

/// L2: components chosen to collide
pub fn l2_alphabet(cfg: Config) -> Vec<Comp> {
    let mut v = Vec::new();
    if cfg.extended {
        // same name in another case, ASCII and non-ASCII (simple and full case folding agree on è / È)
        for name in ["a", "A", "b", "è", "È"] {
            for m in ["", "&", "-", "&-", "?", "+"] {
                for q in [None, Some(2)] {
                    let mut x = Comp::new(Kind::Igr, name).mods(m);
                    if let Some(n) = q {
                        x = x.qty(Val::Int(n), Some("g"));
                    }
                    v.push(x);
                }
            }
        }
        for name in ["p", "P", "poêle", "POÊLE", "a"] {
            for m in ["", "&", "-"] {
                v.push(Comp::new(Kind::Cw, name).mods(m));
                v.push(Comp::new(Kind::Cw, name).mods(m).qty(Val::Int(2), None));
            }
        }
        v.push(Comp::new(Kind::Tm, "").qty(Val::Int(5), Some("min")));
    } else {
        for name in ["a", "A", "b c"] {
            v.push(Comp::new(Kind::Igr, name));
            v.push(Comp::new(Kind::Igr, name).qty(Val::Int(2), Some("g")));
            v.push(Comp::new(Kind::Igr, name).qty(Val::Text("some"), None));
        }
        for name in ["p", "big pot"] {
            v.push(Comp::new(Kind::Cw, name));
            v.push(Comp::new(Kind::Cw, name).qty(Val::Int(2), None));
        }
        v.push(Comp::new(Kind::Tm, "rest"));
        v.push(Comp::new(Kind::Tm, "").qty(Val::Frac(1, 2), Some("hour")));
    }
    v
}

/// shapes: 0 = one step "c1 then c2", 1 = one step per component, 2 = one step with only a blank between the components
pub fn l2_recipe(alpha: &[Comp], idx: &[usize], shape: usize) -> Recipe {
    let comps: Vec<Comp> = idx.iter().map(|&i| alpha[i].clone()).collect();
    let blocks = match shape {
        0 | 2 => {
            let mut items = Vec::new();
            for (k, cc) in comps.iter().enumerate() {
                if k > 0 {
                    items.push(t(if shape == 2 { " " } else { " then " }));
                }
                items.push(c(cc.clone()));
            }
            vec![Block::Step(items)]
        }
        _ => comps.iter().map(|cc| Block::Step(vec![t("Use "), c(cc.clone())])).collect(),
    };
    Recipe { blocks }
}

/// L3: block alphabet
pub fn l3_alphabet(cfg: Config) -> Vec<Block> {
    let igr = |name, n: u32, unit| Comp::new(Kind::Igr, name).qty(Val::Int(n), Some(unit));
    let mut v = vec![
        Block::Section(Some("Dough")),
        Block::Section(Some("Tomato sauce")),
        Block::Section(None),
        Block::Para(vec!["A note"]),
        Block::Para(vec!["Serve warm", "with bread"]),
        Block::Meta("title", "Cake", false),
        Block::Meta("servings", "2", true),
        Block::Meta("origin", "home made", false),
        Block::Step(vec![t("Mix "), c(igr("a", 2, "g")), t(" and "), c(Comp::new(Kind::Cw, "p")), t(" well")]),
        Block::Step(vec![t("Just some text here")]),
        Block::Step(vec![c(igr("b", 1, "kg"))]),
    ];
    if cfg.extended {
        v.extend([
            Block::Step(vec![t("Add more "), c(Comp::new(Kind::Igr, "a").mods("&").qty(Val::Int(1), Some("g")))]),
            Block::Step(vec![t("Rest "), c(Comp::new(Kind::Igr, "dough").mods("&").inter(true, false, 1)), t(" for "), c(Comp::new(Kind::Tm, "").qty(Val::Int(5), Some("min")))]),
            Block::Step(vec![t("Use "), c(Comp::new(Kind::Igr, "base").mods("&").inter(false, true, 1)), t(" and "), c(Comp::new(Kind::Igr, "first").mods("&").inter(false, false, 1))]),
            Block::Step(vec![t("Use "), c(Comp::new(Kind::Igr, "prev").mods("&?").inter(true, true, 1))]),
            // absolute / relative step references on their own and two steps back: a step number is not a content
            // index once a paragraph precedes the step (round 7, C01-r7a)
            Block::Step(vec![t("Bake the "), c(Comp::new(Kind::Igr, "dough").mods("&").inter(false, false, 1))]),
            Block::Step(vec![t("Glaze the "), c(Comp::new(Kind::Igr, "second").mods("&").inter(false, false, 2)), t(" and the "), c(Comp::new(Kind::Igr, "back").mods("&").inter(true, false, 2))]),
            Block::Step(vec![t("Use "), c(Comp::new(Kind::Igr, "a")), t(" and "), c(Comp::new(Kind::Igr, "a").qty(Val::Int(3), Some("g"))), t(" in "), c(Comp::new(Kind::Cw, "p"))]),
            Block::Step(vec![t("Use "), c(Comp::new(Kind::Igr, "a").mods("+").qty(Val::Int(7), Some("g")))]),
            Block::Step(vec![t("Take "), c(Comp::new(Kind::Cw, "p").mods("+").qty(Val::Int(2), None))]),
            Block::Step(vec![t("Put it in "), c(Comp::new(Kind::Cw, "p").qty(Val::Int(1), None))]),
            Block::Step(vec![t("heat to "), Item::InlineQ("180", "C"), t(" then wait "), Item::InlineQ("5", "min")]),
            Block::Switch("mode", "components"),
            Block::Switch("mode", "steps"),
            Block::Switch("mode", "all"),
            Block::Switch("mode", "text"),
            Block::Switch("duplicate", "ref"),
            Block::Switch("duplicate", "new"),
            Block::Step(vec![c(igr("a", 1, "kg")), t(" "), c(Comp::new(Kind::Cw, "p").qty(Val::Int(1), None))]),
            // markers that are documented to stay plain text (marker followed by a blank, also after modifier characters)
            Block::Step(vec![t("Simmer for ~- a while, mail me @ home or @+ b, recipe # five, #? c")]),
        ]);
    } else {
        v.extend([
            Block::Step(vec![t("Let it "), c(Comp::new(Kind::Tm, "rest")), t(" then add "), c(Comp::new(Kind::Igr, "a"))]),
            Block::Step(vec![t("heat to "), Item::InlineQ("180", "C"), t(" then wait")]),
            Block::Meta("time", "1h30m", false),
            Block::Step(vec![t("Wait ~ a bit, mail me @ home, recipe # five")]),
        ]);
    }
    v
}

pub fn l3_recipe(alpha: &[Block], idx: &[usize]) -> Option<Recipe> {
    // metadata keys must be unique
    let mut keys = Vec::new();
    for &i in idx {
        if let Block::Meta(k, ..) = &alpha[i] {
            if keys.contains(k) {
                return None;
            }
            keys.push(*k);
        }
    }
    Some(Recipe { blocks: idx.iter().map(|&i| alpha[i].clone()).collect() })
}

/// decode an index of the space "sequences of length lo..=hi over k symbols" (shorter first)
pub fn decode_seq(mut idx: u64, k: u64, lo: u32, hi: u32) -> Vec<usize> {
    let mut len = lo;
    while len < hi {
        let cnt = k.pow(len);
        if idx < cnt {
            break;
        }
        idx -= cnt;
        len += 1;
    }
    let mut v = Vec::new();
    for _ in 0..len {
        v.push((idx % k) as usize);
        idx /= k;
    }
    v.reverse();
    v
}

pub fn count_seq(k: u64, lo: u32, hi: u32) -> u64 {
    (lo..=hi).map(|l| k.pow(l)).sum()
}
