//! C19: the FFI view mirrors the core recipe and combines amounts faithfully

use crate::common::*;
use crate::strings::*;
use cooklang::quantity::Value as CoreValue;
use cooklang::{Content, CooklangParser, Item as CoreItem};
use cooklang_bindings::model::{Amount, Block, Component, CooklangRecipe, GroupedQuantityKey, Ingredient, Item, QuantityType, Value};
use cooklang_bindings::{combine_ingredients, combine_ingredients_selected, deref_component, deref_cookware, deref_ingredient, deref_timer, parse_recipe};
use serde_json::{json, Value as J};
use std::collections::BTreeMap;
use std::sync::Arc;

fn value_matches(core: &CoreValue, ffi: &Value) -> bool {
    match (core, ffi) {
        (CoreValue::Number(n), Value::Number { value }) => n.value() == *value,
        (CoreValue::Range { start, end }, Value::Range { start: s, end: e }) => start.value() == *s && end.value() == *e,
        (CoreValue::Text(t), Value::Text { value }) => t == value,
        _ => false,
    }
}

fn amount_matches(core: Option<(&CoreValue, Option<&str>)>, ffi: &Option<Amount>) -> bool {
    match (core, ffi) {
        (None, None) => true,
        (Some((v, u)), Some(a)) => {
            let (q, units) = a.verif_parts();
            value_matches(v, q) && units.as_deref() == u
        }
        _ => false,
    }
}

pub fn mirror_check(s: &str, factor: f64) -> Result<Option<u64>, (String, String)> {
    let parser = CooklangParser::canonical();
    let r = parser.parse(s);
    if !r.is_valid() {
        return Ok(None);
    }
    let core = r.into_output().expect("valid").scale(factor, parser.converter());
    let ffi: CooklangRecipe = match guarded(|| parse_recipe(s.to_string(), factor)) {
        Ok(f) => f,
        Err(m) => return Err(("parse_recipe panicked on a canonically valid input".into(), m)),
    };
    macro_rules! fail {
        ($class:expr, $($arg:tt)*) => {
            return Err(($class.to_string(), format!($($arg)*)))
        };
    }
    // components
    if ffi.ingredients.len() != core.ingredients.len() || ffi.cookware.len() != core.cookware.len() || ffi.timers.len() != core.timers.len() {
        fail!("component counts differ", "ffi {}/{}/{} core {}/{}/{}", ffi.ingredients.len(), ffi.cookware.len(), ffi.timers.len(), core.ingredients.len(), core.cookware.len(), core.timers.len());
    }
    for (i, (a, b)) in core.ingredients.iter().zip(&ffi.ingredients).enumerate() {
        if a.name != b.name || a.note != b.descriptor {
            fail!("ingredient differs", "ingredient {i}: core {:?}/{:?} ffi {:?}/{:?}", a.name, a.note, b.name, b.descriptor);
        }
        if !amount_matches(a.quantity.as_ref().map(|q| (q.value(), q.unit())), &b.amount) {
            fail!("ingredient amount differs", "ingredient {i}: core {:?} ffi {:?}", a.quantity, b.amount);
        }
        if deref_ingredient(&ffi, i as u32) != *b {
            fail!("deref_ingredient returns another component", "index {i}");
        }
        if deref_component(&ffi, Item::IngredientRef { index: i as u32 }) != Component::IngredientComponent(b.clone()) {
            fail!("deref_component returns another component", "ingredient index {i}");
        }
    }
    for (i, (a, b)) in core.cookware.iter().zip(&ffi.cookware).enumerate() {
        if a.name != b.name {
            fail!("cookware differs", "cookware {i}: core {:?} ffi {:?}", a.name, b.name);
        }
        if !amount_matches(a.quantity.as_ref().map(|q| (q, None)), &b.amount) {
            fail!("cookware amount differs", "cookware {i}: core {:?} ffi {:?}", a.quantity, b.amount);
        }
        if deref_cookware(&ffi, i as u32) != *b || deref_component(&ffi, Item::CookwareRef { index: i as u32 }) != Component::CookwareComponent(b.clone()) {
            fail!("deref_cookware returns another component", "index {i}");
        }
    }
    for (i, (a, b)) in core.timers.iter().zip(&ffi.timers).enumerate() {
        // a missing name is exposed as an empty one
        if a.name.as_deref().unwrap_or("") != b.name.as_deref().unwrap_or("") {
            fail!("timer differs", "timer {i}: core {:?} ffi {:?}", a.name, b.name);
        }
        if !amount_matches(a.quantity.as_ref().map(|q| (q.value(), q.unit())), &b.amount) {
            fail!("timer amount differs", "timer {i}: core {:?} ffi {:?}", a.quantity, b.amount);
        }
        if deref_timer(&ffi, i as u32) != *b || deref_component(&ffi, Item::TimerRef { index: i as u32 }) != Component::TimerComponent(b.clone()) {
            fail!("deref_timer returns another component", "index {i}");
        }
    }
    // sections, blocks, items
    if ffi.sections.len() != core.sections.len() {
        fail!("section count differs", "ffi {} core {}", ffi.sections.len(), core.sections.len());
    }
    for (si, (cs, fs)) in core.sections.iter().zip(&ffi.sections).enumerate() {
        if cs.name != fs.title {
            fail!("section title differs", "section {si}: core {:?} ffi {:?}", cs.name, fs.title);
        }
        if cs.content.len() != fs.blocks.len() {
            fail!("block count differs", "section {si}: core {} ffi {}", cs.content.len(), fs.blocks.len());
        }
        let (mut sec_i, mut sec_c, mut sec_t) = (Vec::new(), Vec::new(), Vec::new());
        for (bi, (cc, fb)) in cs.content.iter().zip(&fs.blocks).enumerate() {
            match (cc, fb) {
                (Content::Text(t), Block::NoteBlock(n)) => {
                    if *t != n.text {
                        fail!("note text differs", "section {si} block {bi}: core {t:?} ffi {:?}", n.text);
                    }
                }
                (Content::Step(st), Block::StepBlock(fstep)) => {
                    if st.items.len() != fstep.items.len() {
                        fail!("item count differs", "section {si} block {bi}");
                    }
                    let (mut ri, mut rc, mut rt) = (Vec::new(), Vec::new(), Vec::new());
                    for (ii, (ci, fi)) in st.items.iter().zip(&fstep.items).enumerate() {
                        let ok = match (ci, fi) {
                            (CoreItem::Text { value }, Item::Text { value: v }) => value == v,
                            (CoreItem::Ingredient { index }, Item::IngredientRef { index: i }) => {
                                ri.push(*i);
                                *index as u32 == *i
                            }
                            (CoreItem::Cookware { index }, Item::CookwareRef { index: i }) => {
                                rc.push(*i);
                                *index as u32 == *i
                            }
                            (CoreItem::Timer { index }, Item::TimerRef { index: i }) => {
                                rt.push(*i);
                                *index as u32 == *i
                            }
                            (CoreItem::InlineQuantity { .. }, Item::Text { value }) => value.is_empty(),
                            _ => false,
                        };
                        if !ok {
                            fail!("step item differs", "section {si} block {bi} item {ii}: core {ci:?} ffi {fi:?}");
                        }
                        // the item resolves to the component it denotes
                        let d = deref_component(&ffi, fi.clone());
                        let ok = match (fi, &d) {
                            (Item::Text { value }, Component::TextComponent(t)) => value == t,
                            (Item::IngredientRef { index }, Component::IngredientComponent(c)) => *c == ffi.ingredients[*index as usize],
                            (Item::CookwareRef { index }, Component::CookwareComponent(c)) => *c == ffi.cookware[*index as usize],
                            (Item::TimerRef { index }, Component::TimerComponent(c)) => *c == ffi.timers[*index as usize],
                            _ => false,
                        };
                        if !ok {
                            fail!("item reference resolves to another component", "section {si} block {bi} item {ii}: {fi:?} -> {d:?}");
                        }
                    }
                    if fstep.ingredient_refs != ri || fstep.cookware_refs != rc || fstep.timer_refs != rt {
                        fail!("step reference lists differ from its items", "section {si} block {bi}: {:?}/{:?}/{:?} vs items {ri:?}/{rc:?}/{rt:?}", fstep.ingredient_refs, fstep.cookware_refs, fstep.timer_refs);
                    }
                    sec_i.extend(ri);
                    sec_c.extend(rc);
                    sec_t.extend(rt);
                }
                _ => fail!("block kind differs", "section {si} block {bi}: core {cc:?} ffi {fb:?}"),
            }
        }
        if fs.ingredient_refs != sec_i || fs.cookware_refs != sec_c || fs.timer_refs != sec_t {
            fail!("section reference lists are not the concatenation of its steps' lists", "section {si}: {:?}/{:?}/{:?} vs {sec_i:?}/{sec_c:?}/{sec_t:?}", fs.ingredient_refs, fs.cookware_refs, fs.timer_refs);
        }
    }
    // (the property says nothing about the metadata map of the FFI view: which entries are exposed and how
    // non-string values are rendered is not compared)
    let nontrivial = !core.ingredients.is_empty() || !core.cookware.is_empty() || !core.timers.is_empty() || core.sections.len() > 1;
    Ok(nontrivial.then(|| fx_hash_str(&format!("{ffi:?}"))))
}

pub fn mirror_eval(_cfg: &Config, s: &str) -> (Vec<Violation>, bool, u64) {
    let mut out = Vec::new();
    let mut nontrivial = false;
    let mut h = 0;
    for f in [1.0, 0.5, 3.0] {
        match guarded(|| mirror_check(s, f)) {
            Ok(Ok(Some(x))) => {
                nontrivial = true;
                h = x;
            }
            Ok(Ok(None)) => {}
            Ok(Err((class, detail))) => {
                out.push(Violation::new(class, format!("{s:?} x{f}: {detail}"), json!({"kind": "mirror", "input": s, "factor": f})));
                break;
            }
            Err(m) => {
                out.push(Violation::new(format!("panic in the bindings: {}", classify(&m)), format!("{s:?} x{f}: {m}"), json!({"kind": "mirror", "input": s, "factor": f})));
                break;
            }
        }
    }
    (out, nontrivial, h)
}

// ---------------------------------------------------------------------------
// combine

fn ingredient_menu() -> Vec<Ingredient> {
    let mk = |name: &str, amount: Option<Amount>| Ingredient { name: name.to_string(), amount, descriptor: None };
    let a = |q: Value, u: Option<&str>| Some(Amount::verif_new(q, u.map(|s| s.to_string())));
    let mut v = Vec::new();
    for name in ["x", "y"] {
        v.push(mk(name, None));
        for unit in [None, Some("kg"), Some("cup")] {
            v.push(mk(name, a(Value::Number { value: 1.5 }, unit)));
            v.push(mk(name, a(Value::Number { value: 0.25 }, unit)));
            v.push(mk(name, a(Value::Number { value: 0.0006 }, unit)));
            v.push(mk(name, a(Value::Range { start: 1.0, end: 2.5 }, unit)));
        }
        v.push(mk(name, a(Value::Text { value: "p".into() }, None)));
        v.push(mk(name, a(Value::Text { value: "q".into() }, Some("kg"))));
        v.push(mk(name, a(Value::Empty, None)));
    }
    v
}

type Expected = BTreeMap<(String, String, u8), (f64, f64, Vec<String>)>;

fn kind_of(v: &Value) -> u8 {
    match v {
        Value::Number { .. } => 0,
        Value::Range { .. } => 1,
        Value::Text { .. } => 2,
        Value::Empty => 3,
    }
}

fn expected_of(list: &[&Ingredient]) -> Expected {
    let mut e: Expected = BTreeMap::new();
    for i in list {
        let (q, u) = match &i.amount {
            Some(a) => {
                let (q, u) = a.verif_parts();
                (q.clone(), u.clone().unwrap_or_default())
            }
            None => (Value::Empty, String::new()),
        };
        let ent = e.entry((i.name.clone(), u, kind_of(&q))).or_insert((0.0, 0.0, Vec::new()));
        match q {
            Value::Number { value } => ent.0 += value,
            Value::Range { start, end } => {
                ent.0 += start;
                ent.1 += end;
            }
            Value::Text { value } => ent.2.push(value),
            Value::Empty => {}
        }
    }
    e
}

fn observed_of(list: &cooklang_bindings::model::IngredientList) -> Expected {
    let mut e: Expected = BTreeMap::new();
    for (name, g) in list {
        for (k, v) in g {
            let GroupedQuantityKey { name: unit, unit_type } = k;
            let kind = match unit_type {
                QuantityType::Number => 0,
                QuantityType::Range => 1,
                QuantityType::Text => 2,
                QuantityType::Empty => 3,
            };
            let ent = e.entry((name.clone(), unit.clone(), kind)).or_insert((0.0, 0.0, Vec::new()));
            match v {
                Value::Number { value } => ent.0 += value,
                Value::Range { start, end } => {
                    ent.0 += start;
                    ent.1 += end;
                }
                // text amounts under one key are joined somehow (the property only speaks of numeric sums): compare
                // the letters and digits, whatever separator the join uses
                Value::Text { value } => ent.2.extend(value.chars().filter(|c| c.is_alphanumeric()).map(|c| c.to_string())),
                Value::Empty => {}
            }
            if kind_of(v) != kind {
                ent.2.push("<value kind differs from key kind>".into());
            }
        }
    }
    for v in e.values_mut() {
        v.2.sort();
    }
    e
}

/// equal keys, equal text pieces, sums equal up to floating-point reassociation (1e-12 relative)
fn same_sums(a: &Expected, b: &Expected) -> bool {
    if a.len() != b.len() {
        return false;
    }
    a.iter().zip(b.iter()).all(|((ka, va), (kb, vb))| {
        let close = |x: f64, y: f64| (x - y).abs() <= 1e-12 * x.abs().max(y.abs()).max(1e-300);
        ka == kb && va.2 == vb.2 && close(va.0, vb.0) && close(va.1, vb.1)
    })
}

fn permutations(n: usize) -> Vec<Vec<usize>> {
    if n == 0 {
        return vec![vec![]];
    }
    let mut out = Vec::new();
    for p in permutations(n - 1) {
        for pos in 0..=p.len() {
            let mut q = p.clone();
            q.insert(pos, n - 1);
            out.push(q);
        }
    }
    out
}

pub fn combine_check(menu: &[Ingredient], idxs: &[usize]) -> Vec<Violation> {
    let list: Vec<Ingredient> = idxs.iter().map(|&i| menu[i].clone()).collect();
    let case = json!({"kind": "combine", "list": idxs});
    let mut want = expected_of(&list.iter().collect::<Vec<_>>());
    for v in want.values_mut() {
        v.2.sort();
    }
    let mut out = Vec::new();
    // every order
    for perm in permutations(list.len()) {
        let l: Vec<Ingredient> = perm.iter().map(|&i| list[i].clone()).collect();
        let got = match guarded(|| combine_ingredients(&l)) {
            Ok(g) => observed_of(&g),
            Err(m) => {
                out.push(Violation::new(format!("panic in combine_ingredients: {}", classify(&m)), format!("list {l:?}: {m}"), case));
                return out;
            }
        };
        if !same_sums(&got, &want) {
            out.push(Violation::new("combine_ingredients does not sum each input once", format!("list {l:?}: got {got:?}, expected {want:?}"), case));
            return out;
        }
    }
    // every selection
    let n = list.len();
    for mask in 0..(1u32 << n) {
        let sel: Vec<u32> = (0..n as u32).filter(|i| mask & (1 << i) != 0).collect();
        let sub: Vec<Ingredient> = sel.iter().map(|&i| list[i as usize].clone()).collect();
        let a = guarded(|| combine_ingredients_selected(&list, &sel));
        let b = guarded(|| combine_ingredients(&sub));
        match (a, b) {
            (Ok(a), Ok(b)) => {
                if !same_sums(&observed_of(&a), &observed_of(&b)) {
                    out.push(Violation::new("combining a selection differs from combining that subset", format!("list {list:?} selection {sel:?}: {a:?} vs {b:?}"), case));
                    return out;
                }
            }
            (Err(m), _) | (_, Err(m)) => {
                out.push(Violation::new(format!("panic in combine_ingredients_selected: {}", classify(&m)), format!("list {list:?} selection {sel:?}: {m}"), case));
                return out;
            }
        }
    }
    out
}

pub fn replay(case: &J) -> Vec<Violation> {
    match case["kind"].as_str().unwrap_or("") {
        "combine" => {
            let idxs: Vec<usize> = case["list"].as_array().map(|a| a.iter().filter_map(|x| x.as_u64().map(|x| x as usize)).collect()).unwrap_or_default();
            combine_check(&ingredient_menu(), &idxs)
        }
        _ => {
            let s = case["input"].as_str().unwrap_or("");
            let f = case["factor"].as_f64().unwrap_or(1.0);
            match guarded(|| mirror_check(s, f)) {
                Ok(Ok(_)) => vec![],
                Ok(Err((class, detail))) => vec![Violation::new(class, detail, case.clone())],
                Err(m) => vec![Violation::new("panic in the bindings", m, case.clone())],
            }
        }
    }
}

pub fn run(tier: Tier) {
    let c = ctx();
    c.set_rule("mirror: every string over a canonical-syntax component alphabet up to n symbols (and the token alphabet, the corpus and its single edits) that the canonical parser accepts x factors {1, 1/2, 3}: parse_recipe vs CooklangParser::canonical().parse().scale(): same sections, titles, block kinds, items, indices, components (names, notes, amounts and units read through the Amount hook), deref_* resolve to the denoted component, step and section reference lists, string metadata; combine: every list of <= n ingredients over a menu of 32 (2 names x {number x2, range, text, empty, none} x {2 units, none}) in every order and every selection: per (name, unit, kind) the sums equal the reference, each text piece contributes once, combine_selected == combine of the subset; non-trivial = canonically valid input with a component / list; distinct = distinct FFI recipes / lists");
    let one = Arc::new(configs(&[cooklang::Extensions::empty()], &[Conv::Empty]));
    let atoms = Alphabet::new(
        "A_canonical",
        &[
            "@a{1%kg}", "@b c{1/2}", "@a", "@d{}", "@e{some%cups}(note)", "#p", "#big pot{2}", "#p{}(n)", "~t{5%min}", "~{1.5%h}", "~rest", " text ", "\n\n", "\n= s\n", "\n== t ==\n", "\n> note\n\n", "\n>> k: v\n", "1 kg ", "-- c\n", "[- b -]", "@f{2-3%g}", "\\@x",
        ],
    );
    c.part(json!({"alphabet": atoms.name, "symbols": atoms.syms}));
    crate::e1::string_sweep("C19 mirror, canonical atoms", &atoms, 0, tier.pick(4, 5), one.clone(), None, mirror_eval);
    if c.has_violations() {
        return;
    }
    crate::e1::string_sweep("C19 mirror, tokens", &a_tok(), 0, tier.pick(4, 4), one.clone(), None, mirror_eval);
    if c.has_violations() {
        return;
    }
    crate::corpus::edits_sweep("C19 mirror, corpus edits", tier, one.clone(), mirror_eval);
    if c.has_violations() {
        return;
    }
    // combine
    let menu = Arc::new(ingredient_menu());
    let k = menu.len() as u64;
    let n = tier.pick(4, 5);
    let total: u64 = (0..=n).map(|l| k.pow(l)).sum();
    let decode = move |mut idx: u64| -> Vec<usize> {
        let mut len = 0u32;
        loop {
            let cnt = k.pow(len);
            if idx < cnt {
                break;
            }
            idx -= cnt;
            len += 1;
        }
        let mut v = Vec::new();
        for _ in 0..len {
            v.push((idx % k) as usize);
            idx /= k;
        }
        v
    };
    let m = menu.clone();
    sweep(&format!("C19 combine: lists of 0..={n} of {k} ingredients, all orders and all selections"), total, move |i| json!({"kind": "combine", "list": decode(i)}), |idx, local| {
        let l = decode(idx);
        // lists are explored as multisets with all permutations inside: skip non-sorted index lists
        if l.windows(2).any(|w| w[0] > w[1]) {
            return vec![];
        }
        local.evaluations += 1;
        local.nontrivial += 1;
        if idx % 997 == 3 {
            c.sample(json!({"combine list (menu indices)": l}));
        }
        combine_check(&m, &l)
    });
    // one long list: 6 ingredients colliding on the same keys (720 orders, 64 selections)
    let long: Vec<usize> = vec![1, 2, 3, 10, 11, 1];
    for v in combine_check(&menu, &long) {
        c.violation(v);
    }
    let st = c.evaluations.load(std::sync::atomic::Ordering::Relaxed);
    c.states.store(st, std::sync::atomic::Ordering::Relaxed);
    c.transitions.store(st, std::sync::atomic::Ordering::Relaxed);
    c.traces_validated.store(st, std::sync::atomic::Ordering::Relaxed);
    c.note("reference model = the core recipe (mirror) and per-key sums (combine); every explored case is executed on the real bindings compiled from /repo/bindings/src through the rlib shim");
    c.assume("text amounts under one key are concatenated by the bindings; the property speaks of numeric sums, so for text the check is that each piece contributes exactly once");
}
