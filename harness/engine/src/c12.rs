//! C12: fraction approximation never misstates a value

use crate::common::*;
use cooklang::convert::units_file::{Fractions, FractionsConfigHelper, UnitsFile};
use cooklang::convert::{ConvertTo, ConverterBuilder, PhysicalQuantity, System, Unit};
use cooklang::quantity::{Number, Quantity, Value};
use cooklang::Converter;
use serde_json::{json, Value as J};
use std::sync::Arc;

const OFFSETS_Q: [f64; 5] = [0.0, 0.25, 0.5, 0.75, 0.999];
const OFFSETS_T: [f64; 17] = [0.0, 0.0625, 0.125, 0.1875, 0.25, 0.3125, 0.375, 0.4375, 0.5, 0.5625, 0.625, 0.6875, 0.75, 0.8125, 0.875, 0.9375, 0.999];
const WHOLES: [f64; 14] = [
    0.0, 1.0, 2.0, 3.0, 4.0, 5.0, 6.0, 99.0, 100.0, 101.0, 4294967294.0, 4294967295.0, 4294967296.0, 1e12,
];
const ACCS: [f32; 8] = [0.0, 0.001, 0.01, 0.05, 0.1, 0.25, 0.5, 1.0];
const LIMITS: [u32; 6] = [0, 1, 5, 100, u32::MAX - 1, u32::MAX];
const DENOMS: [u32; 6] = [2, 3, 4, 8, 10, 16];

fn case(value: f64, acc: f32, max_den: u8, max_whole: u32) -> J {
    json!({"value_bits": value.to_bits(), "value": value, "accuracy": acc, "max_den": max_den, "max_whole": max_whole})
}

/// parses "w n/d" | "n/d" | "w" back to (w, n, d)
fn parse_printed(s: &str) -> Option<(u64, u64, u64)> {
    let mut w = 0u64;
    let mut frac = None;
    for part in s.split(' ') {
        if let Some((n, d)) = part.split_once('/') {
            if frac.is_some() {
                return None;
            }
            frac = Some((n.parse::<u64>().ok()?, d.parse::<u64>().ok()?));
        } else {
            if frac.is_some() {
                return None;
            }
            w = part.parse::<u64>().ok()?;
        }
    }
    let (n, d) = frac.unwrap_or((0, 1));
    Some((w, n, d))
}

pub fn check_one(value: f64, acc: f32, max_den: u8, max_whole: u32, last_display: &mut (u32, u32, u32)) -> Option<Violation> {
    let r = Number::new_approx(value, acc, max_den, max_whole);
    macro_rules! fail {
        ($class:expr, $($arg:tt)*) => {
            return Some(Violation::new($class, format!("new_approx({value:?}, {acc}, {max_den}, {max_whole}) = {r:?}: {}", format!($($arg)*)), case(value, acc, max_den, max_whole)))
        };
    }
    if !(value > 0.0) || !value.is_finite() {
        if r.is_some() {
            fail!("non-positive or non-finite input not declined", "must be None");
        }
        return None;
    }
    let is_int = value.fract() == 0.0;
    match r {
        None => {
            if is_int && value <= max_whole as f64 && value < u32::MAX as f64 {
                fail!("integer within the limit declined", "an integer not above max_whole must come back as a plain number");
            }
            None
        }
        Some(n) => {
            let back = n.value();
            let tol = value.abs() * f64::EPSILON * 8.0;
            if !((back - value).abs() <= tol) {
                fail!("exact value differs from the input", "value() = {back:?}, differs by {:e}", (back - value).abs());
            }
            match n {
                Number::Regular(v) => {
                    if v != value {
                        fail!("plain number differs from the input", "Regular({v:?})");
                    }
                    if value.trunc() > max_whole as f64 {
                        fail!("whole part above the limit", "Regular({v:?}) with max_whole {max_whole}");
                    }
                    None
                }
                Number::Fraction { whole, num, den, err } => {
                    if is_int {
                        fail!("integer returned as a fraction", "integers must come back as plain numbers");
                    }
                    if !(err.abs() <= acc as f64 * value * (1.0 + 1e-12)) {
                        fail!("error above the requested accuracy", "|err| = {:e} > {} * value = {:e}", err.abs(), acc, acc as f64 * value);
                    }
                    if whole > max_whole {
                        fail!("whole part above the limit", "whole {whole} > {max_whole}");
                    }
                    if num != 0 {
                        if !DENOMS.contains(&den) {
                            fail!("unsupported denominator", "den {den}");
                        }
                        if den > max_den as u32 {
                            fail!("denominator above the requested maximum", "den {den} > {max_den}");
                        }
                        if num >= den {
                            fail!("numerator not smaller than denominator", "{num}/{den}");
                        }
                    } else if den == 0 {
                        fail!("zero denominator", "{num}/{den}");
                    }
                    if whole == 0 && num == 0 {
                        fail!("fraction is zero", "a positive value approximated by 0");
                    }
                    if *last_display != (whole, num, den) {
                        *last_display = (whole, num, den);
                        let printed = n.to_string();
                        match parse_printed(&printed) {
                            Some((w, pn, pd)) if pd != 0 => {
                                // w + pn/pd == whole + num/den as rationals
                                let lhs = (w as u128 * pd as u128 + pn as u128) * den as u128;
                                let rhs = (whole as u128 * den as u128 + num as u128) * pd as u128;
                                if lhs != rhs {
                                    fail!("printed form denotes another fraction", "printed {printed:?}");
                                }
                            }
                            _ => fail!("printed form is not `w n/d`", "printed {printed:?}"),
                        }
                        // the same through format specifications a caller may use (width, alignment, precision)
                        for (spec, text) in [("{:.1}", format!("{n:.1}")), ("{:.3}", format!("{n:.3}")), ("{:>12}", format!("{n:>12}"))] {
                            match parse_printed(text.trim()) {
                                Some((w, pn, pd)) if pd != 0 && (w as u128 * pd as u128 + pn as u128) * den as u128 == (whole as u128 * den as u128 + num as u128) * pd as u128 => {}
                                _ => fail!("printed form denotes another fraction", "printed with `{spec}`: {text:?}"),
                            }
                        }
                    }
                    None
                }
            }
        }
    }
}

// ---------------------------------------------------------------------------
// the callers: try_fraction / fit_fraction with the per-unit limits of a converter

#[derive(Clone, Copy, Debug)]
pub struct Limits {
    pub enabled: bool,
    pub accuracy: f32,
    pub max_den: u8,
    pub max_whole: u32,
}

fn or(a: FractionsConfigHelper, b: FractionsConfigHelper) -> FractionsConfigHelper {
    FractionsConfigHelper { enabled: a.enabled.or(b.enabled), accuracy: a.accuracy.or(b.accuracy), max_denominator: a.max_denominator.or(b.max_denominator), max_whole: a.max_whole.or(b.max_whole) }
}

/// reference: the limits the units files give a unit (layers in order: all, system, quantity, unit;
/// a unit entry inherits what it leaves open, the other levels stand alone)
pub fn limits_of(layers: &[Fractions], u: &Unit) -> Limits {
    let (mut all, mut metric, mut imperial) = (None, None, None);
    let mut quantity: std::collections::HashMap<PhysicalQuantity, FractionsConfigHelper> = Default::default();
    let mut unit: Option<FractionsConfigHelper> = None;
    for f in layers {
        all = f.all.map(|c| c.get()).or(all);
        metric = f.metric.map(|c| c.get()).or(metric);
        imperial = f.imperial.map(|c| c.get()).or(imperial);
        for (q, c) in &f.quantity {
            quantity.insert(*q, c.get());
        }
    }
    for f in layers {
        for (k, c) in &f.unit {
            if u.names.iter().chain(&u.symbols).chain(&u.aliases).any(|x| &**x == k.as_str()) {
                unit = Some(c.get());
            }
        }
    }
    let system = match u.system {
        Some(System::Metric) => metric,
        Some(System::Imperial) => imperial,
        None => None,
    };
    let q = quantity.get(&u.physical_quantity).copied();
    let chosen = match unit {
        Some(mut c) => {
            for inherit in [q, system, all].into_iter().flatten() {
                c = or(c, inherit);
            }
            Some(c)
        }
        None => q.or(system).or(all),
    };
    let c = chosen.unwrap_or_default();
    Limits { enabled: c.enabled.unwrap_or(false), accuracy: c.accuracy.unwrap_or(0.05).clamp(0.0, 1.0), max_den: c.max_denominator.unwrap_or(4).clamp(1, 16), max_whole: c.max_whole.unwrap_or(u32::MAX) }
}

/// `try_fraction` on a plain number keeps the unit and the amount; with fractions disabled for the unit the
/// number stays as it is; a fraction it returns must respect the limits the units files define for that unit
/// (whether it approximates every value it could is not demanded)
pub fn try_fraction_mismatch(conv: &Converter, layers: &[Fractions], unit: &Unit, v: f64) -> Option<String> {
    let lim = limits_of(layers, unit);
    let mut q: Quantity<Value> = Quantity::new(Value::Number(Number::Regular(v)), Some(unit.symbol().to_string()));
    q.try_fraction(conv);
    let why = match q.value() {
        _ if q.unit() != Some(unit.symbol()) => Some("the unit changed"),
        Value::Number(Number::Regular(x)) if *x == v => None,
        Value::Number(Number::Regular(_)) => Some("the value changed"),
        Value::Number(n @ Number::Fraction { whole, num, den, err }) => {
            if !(v > 0.0) {
                Some("a non-positive value approximated by a fraction")
            } else if !lim.enabled {
                Some("a fraction although fractions are disabled for this unit")
            } else if *num != 0 && (*den > lim.max_den as u32 || !DENOMS.contains(den) || num >= den) {
                Some("denominator outside the limits of the unit")
            } else if *whole > lim.max_whole {
                Some("whole part above the maximum of the unit")
            } else if !(err.abs() <= lim.accuracy as f64 * v * (1.0 + 1e-9)) {
                Some("error above the accuracy of the unit")
            } else if !((n.value() - v).abs() <= v.abs() * 1e-12) {
                Some("the exact value of the fraction differs from the input")
            } else {
                None
            }
        }
        _ => Some("not a number any more"),
    };
    why.map(|w| format!("try_fraction of {v} {} gave {:?} {:?}: {w}; the units files give this unit {lim:?}", unit.symbol(), q.value(), q.unit()))
}

struct FracEnv {
    name: &'static str,
    conv: Converter,
    layers: Vec<Fractions>,
    units: Vec<Arc<Unit>>,
}

fn frac_envs() -> Vec<FracEnv> {
    let mut v = Vec::new();
    let bundled = UnitsFile::bundled();
    let base_layers: Vec<Fractions> = bundled.fractions.clone().into_iter().collect();
    let mk = |name: &'static str, conv: Converter, layers: Vec<Fractions>| {
        let units: Vec<Arc<Unit>> = conv.all_units().filter(|u| limits_of(&layers, u).enabled).filter_map(|u| conv.find_unit(u.symbol())).collect();
        FracEnv { name, conv, layers, units }
    };
    v.push(mk("bundled units", Converter::bundled(), base_layers.clone()));
    // a layer that gives neighbouring units clearly different limits and turns fractions on for one metric unit
    let layer_src = "[fractions.unit]\ncup = { max_whole = 3, max_denominator = 2 }\n\"fl oz\" = { max_denominator = 16, accuracy = 0.01 }\noz = { max_denominator = 10 }\npint = { max_whole = 1 }\ndl = { enabled = true, max_denominator = 2 }\n";
    if let Ok(layer) = toml::from_str::<UnitsFile>(layer_src) {
        let mut layers = base_layers.clone();
        layers.extend(layer.fractions.clone());
        if let Ok(conv) = ConverterBuilder::new().with_units_file(UnitsFile::bundled()).and_then(|b| b.with_units_file(layer)).and_then(|b| b.finish()) {
            v.push(mk("bundled units + a layer with per-unit fraction limits", conv, layers));
        }
    }
    // a later layer that changes system- and quantity-level settings which earlier per-unit entries inherit
    let layer_src = "[fractions]\nimperial = { enabled = true, accuracy = 0.01, max_whole = 10 }\n[fractions.quantity]\nmass = { enabled = true, max_denominator = 2 }\n[fractions.unit]\nqt = { accuracy = 0.2, max_denominator = 2 }\n";
    if let Ok(layer) = toml::from_str::<UnitsFile>(layer_src) {
        let mut layers = base_layers.clone();
        layers.extend(layer.fractions.clone());
        if let Ok(conv) = ConverterBuilder::new().with_units_file(UnitsFile::bundled()).and_then(|b| b.with_units_file(layer)).and_then(|b| b.finish()) {
            v.push(mk("bundled units + a layer changing system- and quantity-level fraction settings", conv, layers));
        }
    }
    // a unit-level accuracy that is tighter than the accuracy set for its system
    let layer_src = "[fractions]\nimperial = { enabled = true, accuracy = 0.25 }\n[fractions.unit]\ncup = { accuracy = 0.01 }\noz = { accuracy = 0.02, max_denominator = 8 }\n";
    if let Ok(layer) = toml::from_str::<UnitsFile>(layer_src) {
        let mut layers = base_layers.clone();
        layers.extend(layer.fractions.clone());
        if let Ok(conv) = ConverterBuilder::new().with_units_file(UnitsFile::bundled()).and_then(|b| b.with_units_file(layer)).and_then(|b| b.finish()) {
            v.push(mk("bundled units + a layer with a loose system-level and tight unit-level accuracy", conv, layers));
        }
    }
    // units that belong to no system, next to a metric-level setting that must not reach them
    let layer_src = "[fractions]\nmetric = { enabled = true, max_denominator = 16, accuracy = 0.2 }\n[[quantity]]\nquantity = \"volume\"\n[quantity.units]\nunspecified = [ { names = [\"glass\"], symbols = [\"gls\"], ratio = 0.2 } ]\n[[quantity]]\nquantity = \"mass\"\n[quantity.units]\nunspecified = [ { names = [\"stick\"], symbols = [\"stk\"], ratio = 113.4 } ]\n";
    if let Ok(layer) = toml::from_str::<UnitsFile>(layer_src) {
        let mut layers = base_layers.clone();
        layers.extend(layer.fractions.clone());
        if let Ok(conv) = ConverterBuilder::new().with_units_file(UnitsFile::bundled()).and_then(|b| b.with_units_file(layer)).and_then(|b| b.finish()) {
            // (this one sweeps every unit, not only those with fractions enabled: the point is that they stay off)
            let units: Vec<Arc<Unit>> = conv.all_units().filter(|u| u.system.is_none()).filter_map(|u| conv.find_unit(u.symbol())).collect();
            v.push(FracEnv { name: "bundled units + system-less units and a metric-level fraction setting", conv, layers, units });
        }
    }
    v
}

const FRAC_OPS: [&str; 5] = ["fit", "try_fraction", "convert(Imperial)", "convert(Metric)", "convert(SameSystem)"];

fn frac_values(tier: Tier) -> Vec<f64> {
    // sixteenths and thirds up to 12, tenths, and values around the whole limits
    let mut v: Vec<f64> = Vec::new();
    let top = tier.pick(6, 12);
    for k in 1..=(16 * top) {
        v.push(k as f64 / 16.0);
    }
    for k in 1..=(3 * top) {
        if k % 3 != 0 {
            v.push(k as f64 / 3.0);
        }
    }
    for k in [1, 3, 7, 9, 11, 13, 33, 47] {
        v.push(k as f64 / 10.0);
    }
    v.extend([16.5, 24.0, 31.75, 48.0, 100.5, 1000.25]);
    // non-positive values are never approximated
    v.extend([-0.5, -1.25, -120.0, 0.0]);
    v
}

fn check_fraction_op(env: &FracEnv, unit: &Arc<Unit>, start: f64, end: Option<f64>, op: &str) -> (Option<Violation>, bool) {
    let value = match end {
        None => Value::Number(Number::Regular(start)),
        Some(e) => Value::Range { start: Number::Regular(start), end: Number::Regular(e) },
    };
    let mut q = Quantity::new(value, Some(unit.symbol().to_string()));
    let conv = &env.conv;
    let ok = match op {
        "fit" => q.fit(conv).is_ok(),
        "try_fraction" => {
            q.try_fraction(conv);
            true
        }
        "convert(Imperial)" => q.convert(System::Imperial, conv).is_ok(),
        "convert(Metric)" => q.convert(System::Metric, conv).is_ok(),
        _ => q.convert(ConvertTo::SameSystem, conv).is_ok(),
    };
    if !ok {
        return (None, false);
    }
    if op == "try_fraction" && end.is_none() {
        if let Some(m) = try_fraction_mismatch(conv, &env.layers, unit, start) {
            return (Some(Violation::new("try_fraction result outside the limits of the unit", format!("{} ({})", m, env.name), json!({"kind": "converter", "env": env.name, "unit": unit.symbol(), "start_bits": start.to_bits(), "end_bits": J::Null, "op": op}))), true);
        }
    }
    let Some(new_unit) = q.unit_info(conv) else { return (None, false) };
    let lim = limits_of(&env.layers, &new_unit);
    let case = json!({"kind": "converter", "env": env.name, "unit": unit.symbol(), "start_bits": start.to_bits(), "end_bits": end.map(|e| e.to_bits()), "op": op});
    let numbers: Vec<(&str, f64, Number)> = match q.value() {
        Value::Number(n) => vec![("value", start, *n)],
        Value::Range { start: s, end: e } => vec![("range start", start, *s), ("range end", end.unwrap_or(start), *e)],
        Value::Text(_) => vec![],
    };
    let mut fractions = false;
    for (what, original, n) in numbers {
        let Number::Fraction { whole, num, den, err } = n else { continue };
        fractions = true;
        let desc = format!("{op} of {start}{} {} with {}: {what} became {n:?} {}; the limits of that unit are {lim:?}", end.map(|e| format!("-{e}")).unwrap_or_default(), unit.symbol(), env.name, new_unit.symbol());
        let class = if !lim.enabled {
            Some("fraction in a unit whose fractions are disabled")
        } else if !(original > 0.0) {
            Some("non-positive value approximated by a fraction")
        } else if num != 0 && den > lim.max_den as u32 {
            Some("denominator above the maximum of the unit")
        } else if num != 0 && (!DENOMS.contains(&den) || num >= den) {
            Some("unsupported fraction")
        } else if whole > lim.max_whole {
            Some("whole part above the maximum of the unit")
        } else if !(err.abs() <= lim.accuracy as f64 * n.value() * (1.0 + 1e-9)) {
            Some("error above the accuracy of the unit")
        } else {
            // exact value: the converted original
            let expect = original * unit.ratio / new_unit.ratio;
            if unit.difference == 0.0 && new_unit.difference == 0.0 && !((n.value() - expect).abs() <= expect.abs() * 1e-9) {
                Some("exact value of the fraction differs from the converted input")
            } else {
                None
            }
        };
        if let Some(class) = class {
            return (Some(Violation::new(class, desc, case)), true);
        }
    }
    (None, fractions)
}

fn converter_sweep(tier: Tier) {
    let c = ctx();
    let envs = Arc::new(frac_envs());
    let values = Arc::new(frac_values(tier));
    let nv = values.len() as u64;
    // range ends: every value; range starts: every 5th value
    let starts: Arc<Vec<f64>> = Arc::new(values.iter().copied().step_by(tier.pick(3, 1)).collect());
    for (ei, env) in envs.iter().enumerate() {
        c.part(json!({"converter": env.name, "units_with_fractions_enabled": env.units.iter().map(|u| format!("{} {:?}", u.symbol(), limits_of(&env.layers, u))).collect::<Vec<_>>(), "values": nv, "range_starts": starts.len()}));
        let nu = env.units.len() as u64;
        let per_unit = nv + starts.len() as u64 * nv;
        let total = nu * per_unit;
        let (e2, v2, s2) = (envs.clone(), values.clone(), starts.clone());
        let decode = move |idx: u64| -> (usize, f64, Option<f64>) {
            let u = (idx / per_unit) as usize;
            let r = idx % per_unit;
            if r < nv {
                (u, v2[r as usize], None)
            } else {
                let r = r - nv;
                (u, s2[(r / nv) as usize], Some(v2[(r % nv) as usize]))
            }
        };
        let d2 = decode.clone();
        let describe = move |idx: u64| {
            let (u, s, e) = d2(idx);
            json!({"kind": "converter", "env": e2[ei].name, "unit": e2[ei].units[u].symbol(), "start": s, "end": e})
        };
        let envs2 = envs.clone();
        sweep(&format!("C12 callers ({}): {} units x ({} values + {} x {} ranges) x 5 operations", env.name, nu, nv, starts.len(), nv), total, describe, move |idx, local| {
            let env = &envs2[ei];
            let (u, s, e) = decode(idx);
            if let Some(e) = e {
                if e <= s {
                    return vec![];
                }
            }
            let mut out = Vec::new();
            for op in FRAC_OPS {
                local.evaluations += 1;
                let (v, nontrivial) = check_fraction_op(env, &env.units[u], s, e, op);
                if nontrivial {
                    local.nontrivial += 1;
                }
                out.extend(v);
            }
            out
        });
        if c.has_violations() {
            return;
        }
    }
}

pub fn replay(case: &J) -> Vec<Violation> {
    if case["kind"] == "converter" {
        let envs = frac_envs();
        let Some(env) = envs.iter().find(|e| Some(e.name) == case["env"].as_str()) else { return vec![] };
        let Some(unit) = env.conv.find_unit(case["unit"].as_str().unwrap_or("")) else { return vec![] };
        let start = f64::from_bits(case["start_bits"].as_u64().unwrap_or(0));
        let end = case["end_bits"].as_u64().map(f64::from_bits);
        return check_fraction_op(env, &unit, start, end, case["op"].as_str().unwrap_or("fit")).0.into_iter().collect();
    }
    let value = f64::from_bits(case["value_bits"].as_u64().unwrap_or(0));
    let acc = case["accuracy"].as_f64().unwrap_or(0.05) as f32;
    let max_den = case["max_den"].as_u64().unwrap_or(4) as u8;
    let max_whole = case["max_whole"].as_u64().unwrap_or(u32::MAX as u64) as u32;
    let mut last = (u32::MAX, u32::MAX, u32::MAX);
    check_one(value, acc, max_den, max_whole, &mut last).into_iter().collect()
}

fn value_of(idx: u64, offsets: &[f64]) -> f64 {
    // idx = ((cell * offsets) + offset) * 14 + whole
    let no = offsets.len() as u64;
    let w = WHOLES[(idx % 14) as usize];
    let o = offsets[((idx / 14) % no) as usize];
    let cell = idx / (14 * no);
    w + (cell as f64 + o) / 1e4
}

pub fn run(tier: Tier) {
    let c = ctx();
    c.set_rule("complete grid: every cell of the 10^4-cell fraction lookup at 5 (thorough: 17) offsets inside the cell x 14 whole parts (0..6, 99..101, u32::MAX-1, u32::MAX, 2^32, 1e12) x 8 accuracies in [0,1] x every max_den 1..=64 x 6 whole limits, plus non-positive / non-finite / extreme inputs; plus the callers: every unit with fractions enabled of three converters (bundled; bundled + a layer with per-unit limits; bundled + a layer changing system- and quantity-level settings that earlier per-unit entries inherit) x values (sixteenths, thirds, tenths) and ranges x {fit, try_fraction, convert to each system, convert within the system}: every fraction in the result must respect the limits the units files give the unit it ends up in (reference computation of the layered limits) and denote the converted input; oracle = the predicate of the property; non-trivial = new_approx returned Some; distinct = distinct (value, parameters) grid points with a Some result");
    let offsets: &'static [f64] = tier.pick(&OFFSETS_Q[..], &OFFSETS_T[..]);
    let cells = 10_000u64;
    let total = cells * offsets.len() as u64 * 14;
    let describe = move |idx: u64| json!({"value": value_of(idx, offsets), "note": "all 8 accuracies x 64 denominators x 6 limits"});
    sweep(
        &format!("C12 grid: {cells} cells x {} offsets x 14 wholes, each x 8 accuracies x 64 max_den x 6 limits", offsets.len()),
        total,
        describe,
        |idx, local| {
            let value = value_of(idx, offsets);
            let mut out = Vec::new();
            let mut last = (u32::MAX, u32::MAX, u32::MAX);
            let mut some = 0u64;
            for acc in ACCS {
                for max_den in 1..=64u8 {
                    for lim in LIMITS {
                        if let Some(v) = check_one(value, acc, max_den, lim, &mut last) {
                            if out.len() < 2 {
                                out.push(v);
                            }
                        } else if value > 0.0 {
                            // count Some results cheaply: re-evaluate only in samples
                        }
                    }
                }
            }
            local.evaluations += (ACCS.len() * 64 * LIMITS.len()) as u64;
            // non-trivial count: one representative parameter set per accuracy
            for acc in ACCS {
                for max_den in [2u8, 3, 4, 8, 10, 16, 64] {
                    if Number::new_approx(value, acc, max_den, u32::MAX).map(|n| matches!(n, Number::Fraction { .. })).unwrap_or(false) {
                        some += 1;
                    }
                }
            }
            local.nontrivial += some;
            if idx % (total / 6) == 17 {
                c.sample(json!({"value": value, "result(acc 0.05, max_den 4, no limit)": format!("{:?}", Number::new_approx(value, 0.05, 4, u32::MAX))}));
            }
            out
        },
    );
    // extremes
    let specials = [
        0.0, -0.0, -1.0, -0.5, f64::NAN, f64::INFINITY, f64::NEG_INFINITY, f64::MIN_POSITIVE, 5e-324, f64::MAX, 1e300, 1e-10, 1.0 - 1e-11, 1.0 + 1e-11,
        0.99999999999, 2.0000000001, 1e-5, 4294967295.5, 4294967294.5, 0.5, 1.0 / 3.0, 2.0 / 3.0, 0.1, 0.0625, 0.9375, 15.0 / 16.0 + 1e-9,
    ];
    let n = specials.len() as u64;
    sweep(
        "C12 special values x 8 accuracies x 64 max_den x 6 limits",
        n,
        move |i| json!({"value": format!("{:?}", specials[i as usize])}),
        |idx, local| {
            let value = specials[idx as usize];
            let mut out = Vec::new();
            let mut last = (u32::MAX, u32::MAX, u32::MAX);
            for acc in ACCS {
                for max_den in 1..=64u8 {
                    for lim in LIMITS {
                        local.evaluations += 1;
                        if let Some(v) = check_one(value, acc, max_den, lim, &mut last) {
                            out.push(v);
                        }
                    }
                }
            }
            out
        },
    );
    // the in-place path: approximating a number that already carries a recorded error
    let cells = 10_000u64;
    sweep("C12 try_approx on fractions that carry an error: cells x 3 first approximations x 8 accuracies x 6 denominators x 2 limits", cells, |i| json!({"try_approx cell": i}), |idx, local| {
        let mut out = Vec::new();
        for whole in [0.0, 1.0, 3.0] {
            let value = whole + (idx as f64 + 0.37) / 1e4;
            for (a1, d1) in [(0.05f32, 4u8), (0.5, 16), (0.01, 8)] {
                let Some(first) = Number::new_approx(value, a1, d1, u32::MAX) else { continue };
                for acc in ACCS {
                    for max_den in [1u8, 2, 3, 4, 8, 16] {
                        for lim in [0u32, u32::MAX] {
                            local.evaluations += 1;
                            let mut n = first;
                            let before = n.value();
                            let changed = n.try_approx(acc, max_den, lim);
                            let after = n.value();
                            if !((after - before).abs() <= before.abs() * f64::EPSILON * 8.0) {
                                out.push(Violation::new(
                                    "try_approx changes the exact value",
                                    format!("{first:?} (value {before:?}).try_approx({acc}, {max_den}, {lim}) = {changed} -> {n:?} (value {after:?})"),
                                    json!({"value_bits": value.to_bits(), "first": [a1, d1], "accuracy": acc, "max_den": max_den, "max_whole": lim}),
                                ));
                                return out;
                            }
                            if changed {
                                local.nontrivial += 1;
                                if let Number::Fraction { num, den, err, whole } = n {
                                    if num != 0 && (den > max_den as u32 || !DENOMS.contains(&den)) || whole > lim || !(err.abs() <= acc as f64 * before * (1.0 + 1e-12)) {
                                        out.push(Violation::new("try_approx result outside the requested limits", format!("{first:?}.try_approx({acc}, {max_den}, {lim}) -> {n:?}"), json!({"value_bits": value.to_bits(), "accuracy": acc, "max_den": max_den, "max_whole": lim})));
                                        return out;
                                    }
                                }
                            }
                        }
                    }
                }
            }
        }
        out
    });
    if !c.has_violations() {
        converter_sweep(tier);
    }
    c.note("distinct_nontrivial counts grid points (value x accuracy x 7 representative denominators, no whole limit) for which a Fraction was returned; every grid point is distinct by construction");
}
