//! C01: printing a recipe as Cooklang and parsing it returns that recipe
//! C07 (soundness part): a well-formed recipe has no diagnostics but the
//! deprecation notice. Both walk the same model x spelling space.

use crate::common::*;
use crate::e2::*;
use crate::gen::*;
use cooklang::error::Severity;
use cooklang::{Converter, CooklangParser, Extensions};
use serde_json::{json, Value as J};
use std::sync::Arc;

pub fn parser_for(cfg: Config) -> CooklangParser {
    if cfg.extended {
        CooklangParser::new(Extensions::all(), Converter::bundled())
    } else {
        CooklangParser::canonical()
    }
}

#[derive(Clone, Copy, PartialEq, Eq)]
pub enum What {
    /// C01: no errors and the recipe equals the model
    Recipe,
    /// C07 soundness: no diagnostics except the deprecation notice
    Diagnostics,
}

pub fn case_of(src: &str, cfg: Config) -> J {
    json!({"kind": "source", "input": src, "extended": cfg.extended})
}

/// checks one printed spelling of a model recipe
pub fn check_source(exp: &XRecipe, printed: &Printed, cfg: Config, parser: &CooklangParser, what: What) -> Option<Violation> {
    let src = &printed.src;
    let r = parser.parse(src);
    let errors: Vec<String> = r.report().iter().filter(|d| d.severity == Severity::Error).map(|d| d.message.to_string()).collect();
    let warnings: Vec<&cooklang::error::SourceDiag> = r.report().iter().filter(|d| d.severity == Severity::Warning).collect();
    match what {
        What::Recipe => {
            if !errors.is_empty() {
                return Some(Violation::new("well-formed recipe does not parse without errors", format!("{src:?} ({}): errors {errors:?}", if cfg.extended { "extended" } else { "canonical" }), case_of(src, cfg)));
            }
            let Some(o) = r.output() else { return Some(Violation::new("well-formed recipe has no output", format!("{src:?}"), case_of(src, cfg))) };
            let mut exp = exp.clone();
            if printed.uses_old_metadata {
                for m in exp.metadata.iter_mut() {
                    m.2 = false;
                }
            }
            if let Some(d) = diff(&exp, &observe(o)) {
                let class = d.split(':').next().unwrap_or("").split(' ').next().unwrap_or("").to_string();
                return Some(Violation::new(format!("parsed recipe differs from the intended one: {class}"), format!("{src:?} ({}): {d}", if cfg.extended { "extended" } else { "canonical" }), case_of(src, cfg)));
            }
            if !r.is_valid() {
                return Some(Violation::new("result without errors is not valid", format!("{src:?}"), case_of(src, cfg)));
            }
        }
        What::Diagnostics => {
            if !errors.is_empty() {
                return Some(Violation::new("error diagnostic for a well-formed recipe", format!("{src:?} ({}): {errors:?}", if cfg.extended { "extended" } else { "canonical" }), case_of(src, cfg)));
            }
            // the only warning allowed is the deprecation notice: at most one warning, only when
            // `>>` metadata was written, all its labels inside `>>` lines
            let allowed = if printed.uses_old_metadata { 1 } else { 0 };
            if warnings.len() > allowed {
                return Some(Violation::new(
                    "warning for a well-formed recipe",
                    format!("{src:?} ({}): warnings {:?}", if cfg.extended { "extended" } else { "canonical" }, warnings.iter().map(|w| w.message.to_string()).collect::<Vec<_>>()),
                    case_of(src, cfg),
                ));
            }
            if let Some(w) = warnings.first() {
                for (sp, _) in &w.labels {
                    let line_start = src[..sp.start().min(src.len())].rfind('\n').map(|p| p + 1).unwrap_or(0);
                    if !src[line_start..].trim_start().starts_with(">>") {
                        return Some(Violation::new("warning for a well-formed recipe", format!("{src:?}: warning {:?} labels something that is not a `>>` entry", w.message), case_of(src, cfg)));
                    }
                }
            }
            if !r.is_valid() || !r.has_output() {
                return Some(Violation::new("well-formed recipe is not valid", format!("{src:?}"), case_of(src, cfg)));
            }
        }
    }
    None
}

pub struct Plan {
    pub l1_dev: usize,
    pub l2_dev: usize,
    pub l2_len: u32,
    pub l3_dev: usize,
    pub l3_len: u32,
    pub all_alt: bool,
}

pub fn explore(what: What, plan: &Plan) {
    let c = ctx();
    for cfg in [Config { extended: false }, Config { extended: true }] {
        let cname = if cfg.extended { "extended" } else { "canonical" };
        let parser = Arc::new(parser_for(cfg));
        // --- L1
        let comps = Arc::new(l1_components(cfg));
        let total = comps.len() as u64 * L1_CONTEXTS as u64;
        let spell = Arc::new(std::sync::atomic::AtomicU64::new(0));
        let points = Arc::new(std::sync::atomic::AtomicU64::new(0));
        let (cm, sp, pt, pa) = (comps.clone(), spell.clone(), points.clone(), parser.clone());
        let (l1_dev, all_alt) = (plan.l1_dev, plan.all_alt);
        sweep(&format!("L1 {cname}: {} component shapes x {L1_CONTEXTS} contexts x spellings with <= {l1_dev} deviations", comps.len()), total, {
            let cm = comps.clone();
            move |i| json!({"kind": "model", "layer": "L1", "extended": cfg.extended, "component": format!("{:?}", cm[(i / L1_CONTEXTS as u64) as usize]), "context": i % L1_CONTEXTS as u64})
        }, move |idx, local| {
            let r = l1_recipe(&cm[(idx / L1_CONTEXTS as u64) as usize], (idx % L1_CONTEXTS as u64) as usize);
            run_recipe(&r, cfg, &pa, what, l1_dev, all_alt, local, &sp, &pt, idx % 1499 == 7)
        });
        if c.has_violations() {
            return;
        }
        // --- L2
        let alpha = Arc::new(l2_alphabet(cfg));
        let k = alpha.len() as u64;
        let shapes = 2u64;
        let total = count_seq(k, 2, plan.l2_len) * shapes;
        let (al, sp, pt, pa) = (alpha.clone(), spell.clone(), points.clone(), parser.clone());
        let (l2_dev, l2_len) = (plan.l2_dev, plan.l2_len);
        sweep(&format!("L2 {cname}: sequences of 2..={l2_len} of {k} colliding components x 2 layouts x spellings with <= {l2_dev} deviations"), total, {
            let al = alpha.clone();
            move |i| json!({"kind": "model", "layer": "L2", "extended": cfg.extended, "components": decode_seq(i / shapes, k, 2, l2_len).iter().map(|&j| format!("{:?}", al[j])).collect::<Vec<_>>(), "layout": i % shapes})
        }, move |idx, local| {
            let seq = decode_seq(idx / shapes, k, 2, l2_len);
            let r = l2_recipe(&al, &seq, (idx % shapes) as usize);
            run_recipe(&r, cfg, &pa, what, l2_dev, false, local, &sp, &pt, idx % 4999 == 11)
        });
        if c.has_violations() {
            return;
        }
        // --- L2b: pairs with nothing but a blank between them (the blank may be spelled as a line break)
        let total = count_seq(k, 2, 2);
        let (al, sp, pt, pa) = (alpha.clone(), spell.clone(), points.clone(), parser.clone());
        let l2b_dev = plan.l2_dev.max(1);
        sweep(&format!("L2b {cname}: pairs of {k} components separated by a single blank x spellings with <= {l2b_dev} deviations"), total, {
            let al = alpha.clone();
            move |i| json!({"kind": "model", "layer": "L2b", "extended": cfg.extended, "components": decode_seq(i, k, 2, 2).iter().map(|&j| format!("{:?}", al[j])).collect::<Vec<_>>()})
        }, move |idx, local| {
            let seq = decode_seq(idx, k, 2, 2);
            let r = l2_recipe(&al, &seq, 2);
            run_recipe(&r, cfg, &pa, what, l2b_dev, false, local, &sp, &pt, idx % 4999 == 11)
        });
        if c.has_violations() {
            return;
        }
        // --- L3
        let blocks = Arc::new(l3_alphabet(cfg));
        let k = blocks.len() as u64;
        let total = count_seq(k, 1, plan.l3_len);
        let (bl, sp, pt, pa) = (blocks.clone(), spell.clone(), points.clone(), parser.clone());
        let (l3_dev, l3_len) = (plan.l3_dev, plan.l3_len);
        sweep(&format!("L3 {cname}: sequences of 1..={l3_len} of {k} blocks x spellings with <= {l3_dev} deviations"), total, {
            let bl = blocks.clone();
            move |i| json!({"kind": "model", "layer": "L3", "extended": cfg.extended, "blocks": decode_seq(i, k, 1, l3_len).iter().map(|&j| format!("{:?}", bl[j])).collect::<Vec<_>>()})
        }, move |idx, local| {
            let seq = decode_seq(idx, k, 1, l3_len);
            let Some(r) = l3_recipe(&bl, &seq) else {
                local.outcome("model recipe not well-formed (skipped)");
                return vec![];
            };
            run_recipe(&r, cfg, &pa, what, l3_dev, all_alt, local, &sp, &pt, idx % 9973 == 13)
        });
        c.states.fetch_add(spell.load(std::sync::atomic::Ordering::Relaxed), std::sync::atomic::Ordering::Relaxed);
        c.transitions.fetch_add(points.load(std::sync::atomic::Ordering::Relaxed), std::sync::atomic::Ordering::Relaxed);
        c.traces_validated.fetch_add(spell.load(std::sync::atomic::Ordering::Relaxed), std::sync::atomic::Ordering::Relaxed);
        if c.has_violations() {
            return;
        }
    }
    c.note("states = (model recipe, spelling) pairs, each parsed by the real parser and compared with the reference semantics (traces_validated_against_impl = states); transitions = spelling choice points encountered (each is an edge 'deviate here' of the spelling tree)");
}

#[allow(clippy::too_many_arguments)]
/// the documented comment spellings with one very long comment (sizes around 2^16) on a few recipes
pub fn long_comment_spellings(what: What) {
    for cfg in [Config { extended: false }, Config { extended: true }] {
        let parser = Arc::new(parser_for(cfg));
        sweep(&format!("{}: one block comment / comment-only line of 65535, 65536, 70001 bytes at every gap and block start of 8 recipes", if cfg.extended { "extended" } else { "canonical" }), 1, |_| json!({"kind": "long comment"}), move |_, local| {
            let mut out = Vec::new();
            let comps = l1_components(cfg);
            let blocks = l3_alphabet(cfg);
            let mut recipes: Vec<Recipe> = comps.iter().step_by(comps.len() / 5 + 1).map(|c| l1_recipe(c, 1)).collect();
            recipes.extend([vec![0usize, 8, 3], vec![5, 8, 9, 10], vec![6, 10, 0, 9]].iter().filter_map(|s| l3_recipe(&blocks, s)));
            for size in [65_535usize, 65_536, 70_001] {
                let block_comment = format!("[- {} -]", "é".repeat(size / 2));
                let comment_line = format!("-- {}\n", "c".repeat(size));
                for r in &recipes {
                    let Ok(exp) = expected(r, cfg) else { continue };
                    let mut ch = Chooser::new(Mode::Prefix(vec![]));
                    let p = print(r, cfg, &mut ch);
                    let mut points: Vec<(usize, &str)> = p.gaps.iter().chain(&p.value_gaps).map(|&g| (g, block_comment.as_str())).collect();
                    points.extend(p.block_starts.iter().map(|&b| (b, comment_line.as_str())));
                    for (pos, ins) in points {
                        let mut q = print(r, cfg, &mut Chooser::new(Mode::Prefix(vec![])));
                        q.src.insert_str(pos, ins);
                        local.evaluations += 1;
                        local.nontrivial += 1;
                        if let Some(mut v) = check_source(&exp, &q, cfg, &parser, what) {
                            // keep the report readable: the source is 64 KiB long
                            v.detail = format!("{:?} with a {size}-byte comment inserted at offset {pos}: {}", p.src, v.detail.chars().rev().take(400).collect::<String>().chars().rev().collect::<String>());
                            v.case = json!({"kind": "long comment", "extended": cfg.extended});
                            out.push(v);
                            return out;
                        }
                    }
                }
            }
            out
        });
        if ctx().has_violations() {
            return;
        }
    }
}

fn run_recipe(
    r: &Recipe,
    cfg: Config,
    parser: &CooklangParser,
    what: What,
    max_dev: usize,
    all_alt: bool,
    local: &mut Local,
    spell: &std::sync::atomic::AtomicU64,
    points: &std::sync::atomic::AtomicU64,
    sample: bool,
) -> Vec<Violation> {
    let exp = match expected(r, cfg) {
        Ok(e) => e,
        Err(_) => {
            local.outcome("model recipe not well-formed (skipped)");
            return vec![];
        }
    };
    local.nontrivial += 1;
    let mut out = Vec::new();
    let mut first_src = None;
    let (n, pts) = for_each_spelling(r, cfg, max_dev, all_alt, &mut |printed, _choices| {
        local.evaluations += 1;
        if first_src.is_none() {
            first_src = Some(printed.src.clone());
        }
        match check_source(&exp, printed, cfg, parser, what) {
            Some(v) => {
                out.push(v);
                false
            }
            None => true,
        }
    });
    spell.fetch_add(n, std::sync::atomic::Ordering::Relaxed);
    points.fetch_add(pts, std::sync::atomic::Ordering::Relaxed);
    if sample {
        ctx().sample(json!({"default spelling": first_src, "spellings explored": n, "extended": cfg.extended}));
    }
    out
}

/// replay of a recorded source: the model that produced it is not stored, so
/// the replay re-parses the source and reports its diagnostics and recipe
pub fn replay(case: &J, what: What) -> Vec<Violation> {
    if case["kind"] == "long comment" {
        // re-run that part (the 64 KiB sources are not stored in the replay file)
        let before = ctx().has_violations();
        long_comment_spellings(what);
        return if !before && ctx().has_violations() { vec![Violation::new("the long-comment spellings reproduce a difference", "see the evidence of this replay".to_string(), case.clone())] } else { vec![] };
    }
    let cfg = Config { extended: case["extended"].as_bool().unwrap_or(true) };
    if case["kind"] == "model" {
        return vec![];
    }
    let src = case["input"].as_str().unwrap_or("");
    let parser = parser_for(cfg);
    let r = parser.parse(src);
    println!("replay: diagnostics: {:?}", crate::oracles::diag_summary(r.report()));
    println!("replay: recipe: {:?}", r.output().map(observe));
    // find the model recipe among the layers whose some spelling equals the source
    for (r, exp) in all_model_recipes(cfg) {
        let mut found = None;
        for_each_spelling(&r, cfg, 2, true, &mut |p, _| {
            if p.src == src {
                found = Some(p.clone());
                false
            } else {
                true
            }
        });
        if let Some(p) = found {
            return check_source(&exp, &p, cfg, &parser, what).into_iter().collect();
        }
    }
    println!("replay: the source was not found among the model spellings up to 2 deviations (L1, L2 pairs, L3 <= 3 blocks)");
    vec![]
}

fn all_model_recipes(cfg: Config) -> Vec<(Recipe, XRecipe)> {
    let mut v = Vec::new();
    for comp in l1_components(cfg) {
        for ctx in 0..L1_CONTEXTS {
            let r = l1_recipe(&comp, ctx);
            if let Ok(e) = expected(&r, cfg) {
                v.push((r, e));
            }
        }
    }
    let alpha = l2_alphabet(cfg);
    let k = alpha.len() as u64;
    for i in 0..count_seq(k, 2, 2) * 2 {
        let r = l2_recipe(&alpha, &decode_seq(i / 2, k, 2, 2), (i % 2) as usize);
        if let Ok(e) = expected(&r, cfg) {
            v.push((r, e));
        }
    }
    let blocks = l3_alphabet(cfg);
    let k = blocks.len() as u64;
    for i in 0..count_seq(k, 1, 3) {
        if let Some(r) = l3_recipe(&blocks, &decode_seq(i, k, 1, 3)) {
            if let Ok(e) = expected(&r, cfg) {
                v.push((r, e));
            }
        }
    }
    v
}

pub fn run(tier: Tier) {
    let c = ctx();
    c.set_rule("model recipes (L1: every component shape = kind x name x modifiers x alias x note x value kind x unit x lock, in 4 contexts; L2: every sequence of 2..3 components over a colliding alphabet (same name, other case, definition / reference / new / hidden) in two layouts; L3: every sequence of blocks (sections, paragraphs, metadata, mode and duplicate switches, steps with references, intermediate references, inline quantities)) x every spelling with at most d non-default choices among the documented alternatives (braces, padding in braces and around % / -, space instead of %, modifier order, section styles, `>` on continuation lines, block separators (blank, blank with space, comment line, none), soft line breaks, escapes, trailing comments, `>>` vs front matter with plain / quoted scalars, LF vs CRLF, final newline, leading blank line) + the all-alternatives spellings; both configurations; oracle: no error and every field equals the reference semantics; non-trivial = well-formed model recipes; distinct = distinct sources");
    let plan = match tier {
        Tier::Quick => Plan { l1_dev: 1, l2_dev: 0, l2_len: 3, l3_dev: 0, l3_len: 4, all_alt: true },
        Tier::Thorough => Plan { l1_dev: 2, l2_dev: 1, l2_len: 3, l3_dev: 1, l3_len: 5, all_alt: true },
    };
    explore(What::Recipe, &plan);
    if c.has_violations() {
        return;
    }
    text_mode_verbatim();
    if c.has_violations() {
        return;
    }
    long_comment_spellings(What::Recipe);
    c.assume("the reference semantics covers the canonical parser (no extensions, no units) and the extended parser (all extensions, bundled units); model recipes the semantics classifies as not well-formed (dangling reference, construct that is documented to warn, ...) are skipped and counted");
}

/// In `[mode]: text` every step is a paragraph and components are kept as
/// their source text (with a warning, so this is outside the warning-free
/// model): the paragraph must be the step line verbatim.
fn text_mode_verbatim() {
    use cooklang::Content;
    let cfg = Config { extended: true };
    let parser = Arc::new(parser_for(cfg));
    let comps = Arc::new(l1_components(cfg));
    let n = comps.len() as u64;
    let cm = comps.clone();
    sweep("C01 text mode: every component shape inside a `[mode]: text` step is kept verbatim", n, move |i| json!({"kind": "model", "layer": "text mode", "component": format!("{:?}", cm[i as usize])}), move |idx, local| {
        let comp = &comps[idx as usize];
        if expected(&l1_recipe(comp, 0), cfg).is_err() {
            local.outcome("model recipe not well-formed (skipped)");
            return vec![];
        }
        let r = Recipe { blocks: vec![Block::Switch("mode", "text"), Block::Step(vec![Item::Text("Add "), Item::Comp(comp.clone()), Item::Text(" now")])] };
        let mut ch = Chooser::new(Mode::Prefix(vec![]));
        let p = print(&r, cfg, &mut ch);
        let line = p.src.lines().nth(1).unwrap_or("").to_string();
        local.evaluations += 1;
        local.nontrivial += 1;
        let res = parser.parse(&p.src);
        let errors: Vec<String> = res.report().iter().filter(|d| d.severity == Severity::Error).map(|d| d.message.to_string()).collect();
        let got: Vec<String> = res.output().map(|o| o.sections.iter().flat_map(|s| s.content.iter()).map(|c| match c { Content::Text(t) => format!("text:{t}"), Content::Step(_) => "step".to_string() }).collect()).unwrap_or_default();
        if !errors.is_empty() || got != vec![format!("text:{line}")] {
            return vec![Violation::new("text-mode step is not kept verbatim", format!("{:?}: errors {errors:?}, content {got:?}, expected one paragraph {line:?}", p.src), case_of(&p.src, cfg))];
        }
        vec![]
    });
}
