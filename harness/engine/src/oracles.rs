//! Oracles over a single input string and configuration (engine E1).

use crate::common::*;
use crate::strings::Config;
use cooklang::ast::build_ast;
use cooklang::convert::System;
use cooklang::error::{Severity, SourceReport};
use cooklang::ingredient_list::IngredientList;
use cooklang::metadata::CooklangValueExt;
use cooklang::parser::{Block, Event, Item as AstItem, PullParser};
use cooklang::{
    Content, IngredientReferenceTarget, Item, Modifiers, RecipeResult, ScalableRecipe, Span, Text,
};
use serde_json::{json, Value as J};

pub fn case_json(s: &str, cfg: &Config) -> J {
    json!({"input": s, "ext_bits": cfg.ext.bits(), "converter": cfg.conv.name()})
}

// ---------------------------------------------------------------------------
// C03: every public consumer terminates and returns

pub const AISLE_SRC: &str = "[x]\na|b c\n1\n[y]\nA|p\n";

/// Runs every consumer; returns (consumer, panic message) for each one that panicked.
pub fn c03_consumers(cfg: &Config, s: &str) -> Vec<(&'static str, String)> {
    let p = &cfg.parser;
    let ext = cfg.ext;
    let conv = p.converter();
    let mut bad: Vec<(&'static str, String)> = Vec::new();
    macro_rules! run {
        ($name:expr, $body:expr) => {
            match guarded(|| $body) {
                Ok(v) => Some(v),
                Err(m) => {
                    bad.push(($name, m));
                    None
                }
            }
        };
    }

    let r = run!("parse", p.parse(s));
    if let Some(r) = &r {
        run!("report.write", {
            for color in [false, true] {
                let mut out = Vec::new();
                r.report().write("f", s, color, &mut out).expect("write to a Vec cannot fail");
            }
        });
        run!("report.write into a full sink", {
            // a sink that accepts 16 bytes and then nothing: the call must come back (a loop that waits for
            // progress would be caught by the watchdog)
            let mut small = [0u8; 16];
            let mut sink: &mut [u8] = &mut small[..];
            let _ = r.report().write("f", s, false, &mut sink);
        });
        run!("report.display", {
            let _ = r.report().to_string();
            for d in r.report().iter() {
                let _ = format!("{d} {:?}", d);
            }
        });
    }
    run!("parse_with_options (callbacks)", {
        let r = parse_with_callbacks(p, s);
        let mut out = Vec::new();
        r.report().write("f", s, false, &mut out).expect("write to a Vec cannot fail");
        let _ = r.output().map(|o| o.metadata.map.len());
    });
    let m = run!("parse_metadata", p.parse_metadata(s));
    if let Some(m) = &m {
        run!("metadata report.write", {
            let mut out = Vec::new();
            m.report().write("f", s, false, &mut out).expect("write to a Vec cannot fail");
        });
        if let Some(md) = m.output() {
            run!("metadata accessors (parse_metadata)", metadata_accessors(md, conv));
        }
    }
    run!("PullParser", {
        let evs: Vec<Event> = PullParser::new(s, ext).collect();
        for e in &evs {
            let _ = format!("{e:?}");
        }
    });
    run!("into_meta_iter", {
        let n = PullParser::new(s, ext).into_meta_iter().count();
        let _ = n;
    });
    run!("build_ast", {
        let ast = build_ast(PullParser::new(s, ext));
        let _ = ast.output().map(serde_json::to_string);
        let mut out = Vec::new();
        ast.report().write("f", s, false, &mut out).expect("write to a Vec cannot fail");
    });

    let has_output = r.as_ref().map(|r| r.has_output()).unwrap_or(false);
    if let Some(o) = r.as_ref().and_then(|r| r.output()) {
        run!("serialize ScalableRecipe", serde_json::to_string(o).map(|s| s.len()));
        run!("metadata accessors", metadata_accessors(&o.metadata, conv));
        run!("servings", o.servings().map(|s| s.len()));
    }
    if has_output {
        let aisle = cooklang::aisle::parse(AISLE_SRC).expect("aisle configuration of the harness");
        for f in [0.5, 3.0, 1e-3, 1e6] {
            let Some(o) = p.parse(s).into_output() else { break };
            let sc = run!("scale", o.scale(f, conv));
            if let Some(mut sc) = sc {
                after_scale(&mut bad, &mut sc, conv, &aisle);
            }
        }
        if let Some(o) = p.parse(s).into_output() {
            if let Some(mut sc) = run!("default_scale", o.default_scale()) {
                after_scale(&mut bad, &mut sc, conv, &aisle);
            }
        }
        for n in [1u32, 3, u32::MAX] {
            if let Some(o) = p.parse(s).into_output() {
                if let Some(sc) = run!("scale_to_servings", o.scale_to_servings(n, conv)) {
                    run!("serialize ScaledRecipe", serde_json::to_string(&sc).map(|s| s.len()));
                }
            }
        }
    }
    bad
}

fn after_scale(
    bad: &mut Vec<(&'static str, String)>,
    sc: &mut cooklang::ScaledRecipe,
    conv: &cooklang::Converter,
    aisle: &cooklang::aisle::AisleConf,
) {
    macro_rules! run {
        ($name:expr, $body:expr) => {
            match guarded(|| $body) {
                Ok(v) => Some(v),
                Err(m) => {
                    bad.push(($name, m));
                    None
                }
            }
        };
    }
    run!("group_ingredients", {
        for g in sc.group_ingredients(conv) {
            let _ = g.quantity.to_string();
            let _ = g.quantity.len();
            let _ = g.quantity.clone().into_vec();
        }
    });
    run!("group_cookware", {
        for g in sc.group_cookware() {
            let _ = g.amount.to_string();
        }
    });
    run!("display_name/group_quantities", {
        for i in &sc.ingredients {
            let _ = i.display_name();
            let _ = i.group_quantities(&sc.ingredients, conv).to_string();
        }
        for c in &sc.cookware {
            let _ = c.display_name();
            let _ = c.group_amounts(&sc.cookware).to_string();
        }
    });
    run!("IngredientList", {
        let mut l = IngredientList::from_recipe(sc, conv);
        l.add_recipe(sc, conv);
        let _ = l.iter().count();
        let cat = l.categorize(aisle);
        let _ = cat.iter().count();
    });
    run!("serialize ScaledRecipe", serde_json::to_string(&*sc).map(|s| s.len()));
    run!("scaled_data", {
        let _ = sc.scaled_data().map(|d| d.ingredients.len());
        let _ = sc.is_default_scaled();
    });
    run!("convert imperial", sc.convert(System::Imperial, conv).len());
    run!("serialize converted", serde_json::to_string(&*sc).map(|s| s.len()));
    run!("convert metric", sc.convert(System::Metric, conv).len());
    run!("display quantities", {
        for i in &sc.ingredients {
            if let Some(q) = &i.quantity {
                let _ = format!("{q} {:#}", q.value());
            }
        }
        for t in &sc.timers {
            if let Some(q) = &t.quantity {
                let _ = q.to_string();
            }
        }
        for q in &sc.inline_quantities {
            let _ = q.to_string();
        }
    });
}


/// parse with the optional callbacks installed: a recipe-reference check that
/// rejects some names and a metadata validator that warns, errors and excludes
pub fn parse_with_callbacks(p: &cooklang::CooklangParser, s: &str) -> RecipeResult {
    p.parse_with_options(s, callback_options())
}

/// the metadata-only parse with the same callbacks
pub fn parse_metadata_with_callbacks(p: &cooklang::CooklangParser, s: &str) -> cooklang::MetadataResult {
    p.parse_metadata_with_options(s, callback_options())
}

fn callback_options<'a>() -> cooklang::ParseOptions<'a> {
    use cooklang::analysis::{CheckOptions, CheckResult};
    let mut n = 0usize;
    cooklang::ParseOptions {
        recipe_ref_check: Some(Box::new(|name: &str| match name.len() % 3 {
            0 => CheckResult::Error(vec!["unknown recipe".into(), "second hint".into()]),
            1 => CheckResult::Warning(vec!["maybe".into()]),
            _ => CheckResult::Ok,
        })),
        metadata_validator: Some(Box::new(move |_k: &serde_yaml::Value, _v: &serde_yaml::Value, o: &mut CheckOptions| {
            n += 1;
            match n % 3 {
                0 => {
                    o.include(false);
                    CheckResult::Error(vec!["excluded".into()])
                }
                1 => CheckResult::Warning(vec!["first".into(), "second".into(), "third".into()]),
                2 => {
                    o.run_std_checks(false);
                    CheckResult::Ok
                }
                _ => CheckResult::Ok,
            }
        })),
    }
}

pub fn metadata_accessors(md: &cooklang::Metadata, conv: &cooklang::Converter) {
    let _ = md.title();
    let _ = md.description();
    let _ = md.tags();
    let _ = md.author();
    let _ = md.source();
    if let Some(t) = md.time(conv) {
        let _ = t.total();
    }
    let _ = md.servings();
    let _ = md.locale();
    let _ = md.map_filtered().count();
    for (k, v) in md.map.iter() {
        let _ = md.get(k);
        for val in [k, v] {
            let _ = val.as_tags();
            let _ = val.as_servings();
            let _ = val.as_string_list(",");
            let _ = val.as_name_and_url();
            let _ = val.as_minutes(conv);
            if let Some(t) = val.as_time(conv) {
                let _ = t.total();
            }
            let _ = val.as_u32();
            let _ = val.as_locale();
            let _ = val.as_str_like();
        }
    }
}

// ---------------------------------------------------------------------------
// C04: spans

fn span_ok(s: &str, sp: Span) -> bool {
    sp.start() <= sp.end()
        && sp.end() <= s.len()
        && s.is_char_boundary(sp.start())
        && s.is_char_boundary(sp.end())
}

struct SpanCheck<'a> {
    s: &'a str,
    errs: Vec<(String, String)>,
}

impl<'a> SpanCheck<'a> {
    fn span(&mut self, what: &str, sp: Span) {
        if !span_ok(self.s, sp) {
            self.errs.push((
                format!("bad span: {what}"),
                format!(
                    "span {:?} of {what} is not inside the {}-byte input on char boundaries",
                    sp,
                    self.s.len()
                ),
            ));
        }
    }
    fn text(&mut self, what: &str, t: &Text) {
        self.span(what, t.span());
        let mut prev_end = 0usize;
        for (i, f) in t.fragments().iter().enumerate() {
            let sp = f.span();
            if !span_ok(self.s, sp) {
                self.errs.push((
                    format!("bad fragment span: {what}"),
                    format!("fragment {i} of {what} has span {sp:?}"),
                ));
                continue;
            }
            if &self.s[sp.range()] != f.text() {
                self.errs.push((
                    format!("fragment text differs from input slice: {what}"),
                    format!(
                        "fragment {i} of {what}: text {:?} but input[{sp:?}] = {:?}",
                        f.text(),
                        &self.s[sp.range()]
                    ),
                ));
            }
            if i > 0 && sp.start() < prev_end {
                self.errs.push((
                    format!("fragments out of order: {what}"),
                    format!("fragment {i} of {what} starts at {} before the previous end {prev_end}", sp.start()),
                ));
            }
            prev_end = sp.end();
        }
    }
    fn opt_text(&mut self, what: &str, t: &Option<Text>) {
        if let Some(t) = t {
            self.text(what, t)
        }
    }
    fn quantity_value(&mut self, what: &str, v: &cooklang::parser::QuantityValue) {
        self.span(&format!("{what} value"), v.value.span());
        self.span(&format!("{what} value (span())"), v.span());
        if let Some(l) = v.scaling_lock {
            self.span(&format!("{what} scaling lock"), l);
        }
    }
    fn quantity(&mut self, what: &str, q: &cooklang::Located<cooklang::parser::Quantity>) {
        self.span(what, q.span());
        self.quantity_value(what, &q.value);
        self.opt_text(&format!("{what} unit"), &q.unit);
    }
    fn ingredient(&mut self, c: &cooklang::Located<cooklang::parser::Ingredient>) {
        self.span("ingredient", c.span());
        self.span("ingredient modifiers", c.modifiers.span());
        if let Some(d) = &c.intermediate_data {
            self.span("ingredient intermediate data", d.span());
        }
        self.text("ingredient name", &c.name);
        self.opt_text("ingredient alias", &c.alias);
        self.opt_text("ingredient note", &c.note);
        if let Some(q) = &c.quantity {
            self.quantity("ingredient quantity", q);
        }
    }
    fn cookware(&mut self, c: &cooklang::Located<cooklang::parser::Cookware>) {
        self.span("cookware", c.span());
        self.span("cookware modifiers", c.modifiers.span());
        self.text("cookware name", &c.name);
        self.opt_text("cookware alias", &c.alias);
        self.opt_text("cookware note", &c.note);
        if let Some(q) = &c.quantity {
            self.span("cookware quantity", q.span());
            self.quantity_value("cookware quantity", q);
        }
    }
    fn timer(&mut self, c: &cooklang::Located<cooklang::parser::Timer>) {
        self.span("timer", c.span());
        self.opt_text("timer name", &c.name);
        if let Some(q) = &c.quantity {
            self.quantity("timer quantity", q);
        }
    }
    fn diag(&mut self, what: &str, d: &cooklang::error::SourceDiag) {
        for (i, (sp, _)) in d.labels.iter().enumerate() {
            if !span_ok(self.s, *sp) {
                self.errs.push((
                    format!("bad label span: {what}"),
                    format!(
                        "label {i} of {what} diagnostic {:?} ({:?}/{:?}) has span {sp:?}, input is {} bytes",
                        d.message,
                        d.severity,
                        d.stage,
                        self.s.len()
                    ),
                ));
            }
        }
    }
    fn report(&mut self, what: &str, r: &SourceReport) {
        for d in r.iter() {
            self.diag(what, d);
        }
        let s = self.s;
        for color in [false, true] {
            match guarded(|| {
                let mut out = Vec::new();
                r.write("f", s, color, &mut out).map(|_| out)
            }) {
                Ok(Ok(whole)) => {
                    // environment deviation: a sink that takes 5 bytes per call must receive the same text, and a
                    // sink that is full after 48 bytes must make the call return (with an error), not spin
                    if !r.is_empty() {
                        let mut small = [0u8; 48];
                        if whole.len() > 48 {
                            let mut sink: &mut [u8] = &mut small[..];
                            match guarded(|| r.write("f", s, color, &mut sink)) {
                                Ok(Err(_)) => {}
                                Ok(Ok(())) => self.errs.push((format!("report rendering reports success on a full sink: {what}"), format!("a 48-byte slice took a {}-byte report", whole.len()))),
                                Err(m) => self.errs.push((format!("report rendering panicked: {what}"), m)),
                            }
                        }
                        let mut t = ShortWrites { buf: Vec::new(), k: 5 };
                        match guarded(|| r.write("f", s, color, &mut t)) {
                            Ok(Ok(())) if t.buf == whole => {}
                            Ok(Ok(())) => self.errs.push((format!("report rendering loses text on a sink with short writes: {what}"), format!("{} of {} bytes arrived", t.buf.len(), whole.len()))),
                            Ok(Err(e)) => self.errs.push((format!("report rendering failed on a sink with short writes: {what}"), format!("{e}"))),
                            Err(m) => self.errs.push((format!("report rendering panicked: {what}"), m)),
                        }
                    }
                }
                Ok(Err(e)) => self.errs.push((
                    format!("report rendering failed: {what}"),
                    format!("SourceReport::write returned {e}"),
                )),
                Err(m) => self.errs.push((
                    format!("report rendering panicked: {what}"),
                    format!("SourceReport::write panicked: {m}"),
                )),
            }
        }
    }
}

/// a sink that accepts at most `k` bytes per `write` call
struct ShortWrites {
    buf: Vec<u8>,
    k: usize,
}
impl std::io::Write for ShortWrites {
    fn write(&mut self, b: &[u8]) -> std::io::Result<usize> {
        let n = b.len().min(self.k);
        self.buf.extend_from_slice(&b[..n]);
        Ok(n)
    }
    fn flush(&mut self) -> std::io::Result<()> {
        Ok(())
    }
}

/// returns (violations, nontrivial?, observation hash)
pub fn c04_check(cfg: &Config, s: &str) -> (Vec<Violation>, bool, u64) {
    let mut c = SpanCheck { s, errs: Vec::new() };

    // H1: tokens tile the input
    let toks = cooklang::verif_hooks::tokens(s);
    let mut pos = 0usize;
    for (kind, a, b) in &toks {
        if *a != pos || b < a || *b > s.len() || !s.is_char_boundary(*a) || !s.is_char_boundary(*b) {
            c.errs.push((
                "tokens do not tile the input".to_string(),
                format!("token {kind} {a}..{b} after position {pos} (input {} bytes)", s.len()),
            ));
            break;
        }
        pos = *b;
    }
    if c.errs.is_empty() && pos != s.len() {
        c.errs.push((
            "tokens do not tile the input".to_string(),
            format!("tokens end at {pos}, input is {} bytes", s.len()),
        ));
    }

    // event stream
    let events: Vec<Event> = PullParser::new(s, cfg.ext).collect();
    let mut prev_end = 0usize;
    let mut prev_what = "start of input";
    let mut has_fm = false;
    let mut nontrivial = false;
    let mut order = |c: &mut SpanCheck, what: &'static str, sp: Span| {
        if span_ok(s, sp) {
            if sp.start() < prev_end {
                c.errs.push((
                    format!("events overlap or are out of order: {what} after {prev_what}"),
                    format!("{what} event at {sp:?} starts before the end ({prev_end}) of the previous {prev_what} event"),
                ));
            }
            prev_end = sp.end();
            prev_what = what;
        }
    };
    for e in &events {
        match e {
            Event::YAMLFrontMatter(t) => {
                has_fm = true;
                nontrivial = true;
                c.text("front matter", t);
                order(&mut c, "front matter", t.span());
            }
            Event::Metadata { key, value } => {
                nontrivial = true;
                c.text("metadata key", key);
                c.text("metadata value", value);
                if span_ok(s, key.span()) && span_ok(s, value.span()) {
                    order(&mut c, "metadata", Span::from(key.span().start()..value.span().end().max(key.span().start())));
                }
            }
            Event::Section { name } => {
                nontrivial = true;
                if let Some(n) = name {
                    c.text("section name", n);
                    order(&mut c, "section", n.span());
                }
            }
            Event::Start(_) | Event::End(_) => {}
            Event::Text(t) => {
                c.text("text", t);
                order(&mut c, "text", t.span());
            }
            Event::Ingredient(i) => {
                nontrivial = true;
                c.ingredient(i);
                order(&mut c, "ingredient", i.span());
            }
            Event::Cookware(i) => {
                nontrivial = true;
                c.cookware(i);
                order(&mut c, "cookware", i.span());
            }
            Event::Timer(i) => {
                nontrivial = true;
                c.timer(i);
                order(&mut c, "timer", i.span());
            }
            Event::Error(d) => {
                nontrivial = true;
                c.diag("event-stream error", d)
            }
            Event::Warning(d) => {
                nontrivial = true;
                c.diag("event-stream warning", d)
            }
        }
    }
    let h = fx_hash_str(&format!("{events:?}"));

    // AST nodes (build_ast does not support front matter: known finding of C03)
    if !has_fm {
        if let Ok(ast) = guarded(|| build_ast(PullParser::new(s, cfg.ext))) {
            if let Some(a) = ast.output() {
                for b in &a.blocks {
                    match b {
                        Block::Metadata { key, value } => {
                            c.text("ast metadata key", key);
                            c.text("ast metadata value", value);
                        }
                        Block::Section { name } => c.opt_text("ast section name", name),
                        Block::Step { items } => {
                            for it in items {
                                c.span("ast item", it.span());
                                match it {
                                    AstItem::Text(t) => c.text("ast text", t),
                                    AstItem::Ingredient(i) => c.ingredient(i),
                                    AstItem::Cookware(i) => c.cookware(i),
                                    AstItem::Timer(i) => c.timer(i),
                                }
                            }
                        }
                        Block::TextBlock(ts) => {
                            for t in ts {
                                c.text("ast text block", t)
                            }
                        }
                    }
                }
            }
            c.report("build_ast", ast.report());
        }
    }

    // full parse: diagnostics and rendering
    let r = cfg.parser.parse(s);
    c.report("parse", r.report());
    let m = cfg.parser.parse_metadata(s);
    c.report("parse_metadata", m.report());
    if s.contains(">>") || s.contains("---") || s.contains("@@") {
        let o = parse_with_callbacks(&cfg.parser, s);
        c.report("parse_with_options", o.report());
    }

    let case = case_json(s, cfg);
    let v = c
        .errs
        .into_iter()
        .map(|(class, detail)| Violation::new(class, detail, case.clone()))
        .collect();
    (v, nontrivial, h)
}

// ---------------------------------------------------------------------------
// C05: no content silently dropped

/// Independent comment scanner: true = byte belongs to a comment (or is protected
/// by being inside one). Where this masks more than the lexer the obligation
/// only gets weaker.
pub fn comment_mask(s: &str) -> Vec<bool> {
    let b = s.as_bytes();
    let mut mask = vec![false; b.len()];
    let mut it = s.char_indices().peekable();
    while let Some((i, ch)) = it.next() {
        match ch {
            '\\' => {
                // protects the next character, whatever it is
                it.next();
            }
            '-' if b.get(i + 1) == Some(&b'-') => {
                // line comment until (excluding) the newline
                let end = s[i..].find('\n').map(|p| i + p).unwrap_or(s.len());
                for m in &mut mask[i..end] {
                    *m = true;
                }
                while let Some(&(j, _)) = it.peek() {
                    if j < end {
                        it.next();
                    } else {
                        break;
                    }
                }
            }
            '[' if b.get(i + 1) == Some(&b'-') => {
                // block comment until "-]" (searched after the opening "[-") or end of input
                let end = s[i + 2..].find("-]").map(|p| i + 2 + p + 2).unwrap_or(s.len());
                for m in &mut mask[i..end] {
                    *m = true;
                }
                while let Some(&(j, _)) = it.peek() {
                    if j < end {
                        it.next();
                    } else {
                        break;
                    }
                }
            }
            _ => {}
        }
    }
    mask
}

fn event_span(e: &Event) -> Option<Span> {
    Some(match e {
        Event::YAMLFrontMatter(t) => t.span(),
        Event::Metadata { key, value } => {
            Span::from(key.span().start().min(value.span().start())..value.span().end().max(key.span().end()))
        }
        Event::Section { name } => name.as_ref()?.span(),
        Event::Text(t) => t.span(),
        Event::Ingredient(c) => c.span(),
        Event::Cookware(c) => c.span(),
        Event::Timer(c) => c.span(),
        _ => return None,
    })
}

/// returns (violations, nontrivial, hash)
pub fn c05_check(cfg: &Config, s: &str) -> (Vec<Violation>, bool, u64) {
    let events: Vec<Event> = PullParser::new(s, cfg.ext).collect();
    if events.iter().any(|e| matches!(e, Event::Error(_))) {
        return (vec![], false, 0);
    }
    let mut covered = vec![false; s.len()];
    let mut n_events = 0;
    for e in &events {
        if let Some(sp) = event_span(e) {
            n_events += 1;
            let (a, b) = (sp.start().min(s.len()), sp.end().min(s.len()));
            if a <= b {
                for c in &mut covered[a..b] {
                    *c = true;
                }
            }
        }
    }
    // Cooklang comments only exist in the Cooklang part: a `[-` or `--` inside a YAML front matter is YAML.
    // The body starts after the line of the closing fence, which follows the span of the front-matter event.
    let body_start = events
        .iter()
        .find_map(|e| if let Event::YAMLFrontMatter(t) = e { Some(t.span().end().min(s.len())) } else { None })
        .map(|yaml_end| s[yaml_end..].find('\n').map(|p| yaml_end + p + 1).unwrap_or(s.len()))
        .unwrap_or(0);
    let mut mask = vec![false; body_start];
    mask.extend(comment_mask(&s[body_start..]));
    let mut out = vec![];
    let mut any_alnum = false;
    for (i, ch) in s.char_indices() {
        if ch.is_alphanumeric() && !mask[i] {
            any_alnum = true;
            if !covered[i] {
                out.push(Violation::new(
                    "content dropped",
                    format!(
                        "no error event, but the character {ch:?} at byte {i} is outside every comment and outside the span of every emitted event ({n_events} events with spans)"
                    ),
                    case_json(s, cfg),
                ));
                break;
            }
        }
    }
    let h = fx_hash_str(&format!("{events:?}"));
    (out, any_alnum && n_events > 0, h)
}

// ---------------------------------------------------------------------------
// C06: referential consistency of the returned model

pub fn c06_model(o: &ScalableRecipe, valid: bool) -> Result<(), (String, String)> {
    macro_rules! fail {
        ($class:expr, $($arg:tt)*) => {
            return Err(($class.to_string(), format!($($arg)*)))
        };
    }
    let (mut ni, mut nc, mut nt, mut nq) = (0usize, 0usize, 0usize, 0usize);
    for (si, sec) in o.sections.iter().enumerate() {
        if sec.name.is_none() && sec.content.is_empty() {
            fail!("empty section", "section {si} has neither name nor content");
        }
        let mut num = 1u32;
        for (ci, c) in sec.content.iter().enumerate() {
            match c {
                Content::Text(t) => {
                    if t.is_empty() {
                        fail!("empty text paragraph", "section {si} content {ci} is an empty text paragraph");
                    }
                }
                Content::Step(st) => {
                    if st.number != num {
                        fail!("step number", "section {si} content {ci}: step number {} but it is step {num} of its section", st.number);
                    }
                    num += 1;
                    if st.items.is_empty() {
                        fail!("empty step", "section {si} content {ci} is a step without items");
                    }
                    for it in &st.items {
                        match it {
                            Item::Text { value } => {
                                if value.is_empty() {
                                    fail!("empty text item", "section {si} content {ci} has an empty text item");
                                }
                            }
                            Item::Ingredient { index } => {
                                if *index >= o.ingredients.len() {
                                    fail!("ingredient index out of range", "item index {index} but {} ingredients", o.ingredients.len());
                                }
                                if *index < ni {
                                    fail!("ingredient order", "ingredient item index {index} appears after index {}", ni - 1);
                                }
                                ni = *index + 1;
                                let ig = &o.ingredients[*index];
                                if let Some((t, target)) = ig.relation.references_to() {
                                    match target {
                                        IngredientReferenceTarget::Step => {
                                            if t >= ci {
                                                fail!("step reference not earlier", "ingredient {index} in section {si} content {ci} references content {t}");
                                            }
                                            if !sec.content[t].is_step() {
                                                fail!("step reference to text", "ingredient {index} references content {t} of section {si}, which is a text paragraph");
                                            }
                                        }
                                        IngredientReferenceTarget::Section => {
                                            if t >= si {
                                                fail!("section reference not earlier", "ingredient {index} in section {si} references section {t}");
                                            }
                                        }
                                        IngredientReferenceTarget::Ingredient => {}
                                    }
                                }
                            }
                            Item::Cookware { index } => {
                                if *index >= o.cookware.len() {
                                    fail!("cookware index out of range", "item index {index} but {} cookware", o.cookware.len());
                                }
                                if *index < nc {
                                    fail!("cookware order", "cookware item index {index} appears after index {}", nc - 1);
                                }
                                nc = *index + 1;
                            }
                            Item::Timer { index } => {
                                if *index >= o.timers.len() {
                                    fail!("timer index out of range", "item index {index} but {} timers", o.timers.len());
                                }
                                if *index < nt {
                                    fail!("timer order", "timer item index {index} appears after index {}", nt - 1);
                                }
                                nt = *index + 1;
                            }
                            Item::InlineQuantity { index } => {
                                if *index >= o.inline_quantities.len() {
                                    fail!("inline quantity index out of range", "item index {index} but {} inline quantities", o.inline_quantities.len());
                                }
                                if *index < nq {
                                    fail!("inline quantity order", "inline quantity item index {index} appears after index {}", nq - 1);
                                }
                                nq = *index + 1;
                            }
                        }
                    }
                }
            }
        }
    }
    // step / section references of ingredients that are not in any step
    // (components mode) cannot be located; they are checked for range only
    for (i, ig) in o.ingredients.iter().enumerate() {
        if let Some((t, target)) = ig.relation.references_to() {
            match target {
                IngredientReferenceTarget::Ingredient => {
                    if t >= i {
                        fail!("ingredient reference not earlier", "ingredient {i} references ingredient {t}");
                    }
                    let d = &o.ingredients[t];
                    if !d.relation.is_definition() {
                        fail!("reference to a reference", "ingredient {i} references ingredient {t}, which is itself a reference");
                    }
                    let n = d.relation.referenced_from().iter().filter(|&&x| x == i).count();
                    if n != 1 {
                        fail!("definition does not list the reference back exactly once", "ingredient {t} lists ingredient {i} {n} times in referenced_from {:?}", d.relation.referenced_from());
                    }
                    if valid && !eq_ignore_case(&d.name, &ig.name) {
                        fail!("reference name differs from definition", "valid result, ingredient {i} {:?} references {t} {:?}", ig.name, d.name);
                    }
                }
                IngredientReferenceTarget::Section => {
                    if t >= o.sections.len() + 1 {
                        fail!("section reference out of range", "ingredient {i} references section {t} of {}", o.sections.len());
                    }
                }
                IngredientReferenceTarget::Step => {}
            }
        }
        for &rf in ig.relation.referenced_from() {
            if rf <= i || rf >= o.ingredients.len() {
                fail!("referenced_from out of range", "ingredient {i} lists {rf} in referenced_from, {} ingredients", o.ingredients.len());
            }
            if o.ingredients[rf].relation.references_to() != Some((i, IngredientReferenceTarget::Ingredient)) {
                fail!("referenced_from entry does not point back", "ingredient {i} lists {rf}, whose relation is {:?}", o.ingredients[rf].relation);
            }
        }
        if valid {
            let is_ref = ig.relation.references_to().is_some();
            let has_mod = ig.modifiers().contains(Modifiers::REF);
            if is_ref != has_mod {
                fail!("reference modifier does not match relation", "valid result, ingredient {i}: relation {:?} modifiers {:?}", ig.relation, ig.modifiers());
            }
        }
    }
    for (i, cw) in o.cookware.iter().enumerate() {
        if let Some(t) = cw.relation.references_to() {
            if t >= i {
                fail!("cookware reference not earlier", "cookware {i} references cookware {t}");
            }
            let d = &o.cookware[t];
            if !d.relation.is_definition() {
                fail!("reference to a reference", "cookware {i} references cookware {t}, which is itself a reference");
            }
            let n = d.relation.referenced_from().iter().filter(|&&x| x == i).count();
            if n != 1 {
                fail!("definition does not list the reference back exactly once", "cookware {t} lists cookware {i} {n} times");
            }
            if valid && !eq_ignore_case(&d.name, &cw.name) {
                fail!("reference name differs from definition", "valid result, cookware {i} {:?} references {t} {:?}", cw.name, d.name);
            }
        }
        for &rf in cw.relation.referenced_from() {
            if rf <= i || rf >= o.cookware.len() {
                fail!("referenced_from out of range", "cookware {i} lists {rf}");
            }
            if o.cookware[rf].relation.references_to() != Some(i) {
                fail!("referenced_from entry does not point back", "cookware {i} lists {rf}, whose relation is {:?}", o.cookware[rf].relation);
            }
        }
        if valid && cw.relation.is_reference() != cw.modifiers().contains(Modifiers::REF) {
            fail!("reference modifier does not match relation", "valid result, cookware {i}: relation {:?} modifiers {:?}", cw.relation, cw.modifiers());
        }
    }
    for (i, t) in o.timers.iter().enumerate() {
        if t.name.is_none() && t.quantity.is_none() {
            fail!("timer without name and quantity", "timer {i}");
        }
    }
    Ok(())
}

fn eq_ignore_case(a: &str, b: &str) -> bool {
    a == b || a.to_lowercase() == b.to_lowercase()
}

pub fn c06_check(cfg: &Config, s: &str) -> (Vec<Violation>, bool, u64) {
    let r = cfg.parser.parse(s);
    let valid = r.is_valid();
    let Some(o) = r.output() else { return (vec![], false, 0) };
    let nontrivial = !o.ingredients.is_empty() || !o.cookware.is_empty() || !o.timers.is_empty() || o.sections.len() > 1;
    let h = if nontrivial { fx_hash_str(&serde_json::to_string(o).unwrap_or_default()) } else { 0 };
    match c06_model(o, valid) {
        Ok(()) => (vec![], nontrivial, h),
        Err((class, detail)) => (vec![Violation::new(class, detail, case_json(s, cfg))], nontrivial, h),
    }
}

// ---------------------------------------------------------------------------
// C14: metadata-only parse agrees with the full parse

pub fn c14_check(cfg: &Config, s: &str) -> (Vec<Violation>, bool, u64) {
    let full = cfg.parser.parse(s);
    let meta = cfg.parser.parse_metadata(s);
    if let (Some(f), Some(m)) = (full.output(), meta.output()) {
        let nontrivial = !f.metadata.map.is_empty() || !m.map.is_empty();
        let h = if nontrivial { fx_hash_str(&format!("{:?}", f.metadata.map)) } else { 0 };
        if &f.metadata != m {
            return (
                vec![Violation::new(
                    "metadata differs",
                    format!("parse().metadata = {:?} but parse_metadata() = {:?}", f.metadata.map, m.map),
                    case_json(s, cfg),
                )],
                nontrivial,
                h,
            );
        }
        // the same agreement when the caller installs callbacks (a validator that warns, errors, excludes
        // entries and switches the standard checks off; a recipe-reference check)
        if nontrivial {
            let full = parse_with_callbacks(&cfg.parser, s);
            let meta = parse_metadata_with_callbacks(&cfg.parser, s);
            if let (Some(f), Some(m)) = (full.output(), meta.output()) {
                if &f.metadata != m {
                    return (
                        vec![Violation::new(
                            "metadata differs (with callbacks)",
                            format!("parse_with_options().metadata = {:?} but parse_metadata_with_options() = {:?}", f.metadata.map, m.map),
                            case_json(s, cfg),
                        )],
                        nontrivial,
                        h,
                    );
                }
            }
        }
        return (vec![], nontrivial, h);
    }
    (vec![], false, 0)
}

// ---------------------------------------------------------------------------
// images of results (shared with C17, C18, C02)

/// serde_json image of the recipe with step text normalised: adjacent text
/// items joined, whitespace runs collapsed, segment ends trimmed, empty text
/// items dropped.
pub fn normalized_image(o: &ScalableRecipe) -> J {
    // built from the parts so that YAML metadata JSON cannot carry (non-string
    // keys, tags) falls back to its Debug rendering instead of failing
    let metadata = serde_json::to_value(&o.metadata).unwrap_or_else(|_| J::String(format!("{:?}", o.metadata.map)));
    let mut v = json!({
        "metadata": metadata,
        "sections": serde_json::to_value(&o.sections).expect("sections serialize"),
        "ingredients": serde_json::to_value(&o.ingredients).expect("ingredients serialize"),
        "cookware": serde_json::to_value(&o.cookware).expect("cookware serializes"),
        "timers": serde_json::to_value(&o.timers).expect("timers serialize"),
        "inline_quantities": serde_json::to_value(&o.inline_quantities).expect("inline quantities serialize"),
        "servings": o.servings(),
    });
    if let Some(sections) = v.get_mut("sections").and_then(|s| s.as_array_mut()) {
        for sec in sections {
            let Some(content) = sec.get_mut("content").and_then(|c| c.as_array_mut()) else { continue };
            for c in content {
                if c["type"] == "step" {
                    let items = c["value"]["items"].as_array().cloned().unwrap_or_default();
                    let mut out: Vec<J> = Vec::new();
                    for it in items {
                        if it["type"] == "text" {
                            let t = it["value"].as_str().unwrap_or("").to_string();
                            if let Some(last) = out.last_mut() {
                                if last["type"] == "text" {
                                    let joined = format!("{}{}", last["value"].as_str().unwrap_or(""), t);
                                    last["value"] = J::String(joined);
                                    continue;
                                }
                            }
                            out.push(json!({"type": "text", "value": t}));
                        } else {
                            out.push(it);
                        }
                    }
                    let out: Vec<J> = out
                        .into_iter()
                        .filter_map(|mut it| {
                            if it["type"] == "text" {
                                let t = collapse_ws(it["value"].as_str().unwrap_or(""));
                                if t.is_empty() {
                                    return None;
                                }
                                it["value"] = J::String(t);
                            }
                            Some(it)
                        })
                        .collect();
                    c["value"]["items"] = J::Array(out);
                } else if c["type"] == "text" {
                    let t = collapse_ws(c["value"].as_str().unwrap_or(""));
                    c["value"] = J::String(t);
                }
            }
        }
    }
    v
}

pub fn collapse_ws(s: &str) -> String {
    s.split_whitespace().collect::<Vec<_>>().join(" ")
}

pub fn result_image(r: &RecipeResult) -> J {
    json!({
        "valid": r.is_valid(),
        "has_output": r.has_output(),
        "recipe": r.output().map(normalized_image),
    })
}

/// Exact image: JSON of the recipe + ordered diagnostics with labels
pub fn exact_image(r: &RecipeResult) -> String {
    let rec = r.output().map(|o| serde_json::to_string(o).unwrap_or_else(|_| format!("{o:?}")));
    let diags: Vec<String> = r
        .report()
        .iter()
        .map(|d| format!("{:?}/{:?} {:?} labels={:?} hints={:?}", d.severity, d.stage, d.message, d.labels, d.hints))
        .collect();
    format!("valid={} recipe={:?} diags={:?}", r.is_valid(), rec, diags)
}

pub fn diag_summary(r: &SourceReport) -> Vec<String> {
    r.iter()
        .map(|d| {
            format!(
                "{}/{:?} {:?} labels={:?}",
                if d.severity == Severity::Error { "error" } else { "warning" },
                d.stage,
                d.message,
                d.labels.iter().map(|l| l.0).collect::<Vec<_>>()
            )
        })
        .collect()
}

// ---------------------------------------------------------------------------
// C17 (CRLF part)

pub fn c17_crlf_check(cfg: &Config, s: &str) -> (Vec<Violation>, bool, u64) {
    if s.contains('\\') {
        return (vec![], false, 0);
    }
    let lf = s.replace("\r\n", "\n");
    if lf.contains('\r') {
        return (vec![], false, 0);
    }
    if !lf.contains('\n') {
        return (vec![], false, 0);
    }
    let crlf = lf.replace('\n', "\r\n");
    let a = cfg.parser.parse(&lf);
    let b = cfg.parser.parse(&crlf);
    let ia = result_image(&a);
    let ib = result_image(&b);
    let nontrivial = a.output().map(|o| !o.sections.is_empty() || !o.metadata.map.is_empty()).unwrap_or(false);
    let h = if nontrivial { fx_hash_str(&ia.to_string()) } else { 0 };
    let mut out = vec![];
    if ia != ib {
        out.push(Violation::new(
            "CRLF changes the recipe",
            format!("LF input {lf:?} parses to {ia} but CRLF input {crlf:?} parses to {ib}"),
            case_json(&lf, cfg),
        ));
    } else if s != lf && s != crlf {
        // mixed line endings
        let c = cfg.parser.parse(s);
        let ic = result_image(&c);
        if ic != ia {
            out.push(Violation::new(
                "mixed line endings change the recipe",
                format!("LF input {lf:?} parses to {ia} but mixed input {s:?} parses to {ic}"),
                case_json(s, cfg),
            ));
        }
    }
    (out, nontrivial, h)
}
