#!/bin/bash
# usage: tools/verify_seeded.sh [tier]   runs the target check of every seeded change and prints whether it is detected
tier=${1:-quick}
for d in /verif/seeded/*/; do
  id=$(python3 -c "import json,sys;print(json.load(open('$d/meta.json'))['property'])")
  r=$(/verif/tools/try_patch.sh $d/patch.diff $tier $id 2>&1 | grep -E "exit=" | head -1)
  echo "$(basename $d) $r"
done
