#!/usr/bin/env python3
"""Generates /verif/MANIFEST.json from the table below (single source of truth)."""
import json, subprocess, os

REPO_HOOK_COMMITS = ["8efe976", "ca48528"]

# id -> (category, technique, level text, level note, design ref)
CHECKS = {
 "C03": ("exploration",
   "bounded-exhaustive enumeration of inputs (all strings up to n symbols over token / component / metadata alphabets, all single and double edits of a corpus) x configurations, every consumer executed on the real code",
   "Every string up to the stated length over alphabets that have one symbol per lexer/parser/analysis decision, and every 1-edit (thorough: 2-edit) neighbour of a corpus, is run through every public consumer under the stated extension subsets and converters; a panic, failed (debug) assertion, arithmetic overflow or a case that does not return is a violation. Exhaustive within the bound, no sampling.",
   "Trusted: the harness build enables debug-assertions and overflow-checks for cooklang; catch_unwind per consumer; 60 s watchdog per case. Not covered: inputs longer than the bound that are not within the edit distance of the corpus, characters outside the alphabets' classes, process aborts (reported as machinery failure). The 'randomly beyond' part of the property is sampling and outside this technique.",
   "DESIGN.md 5/C03"),
 "C04": ("exploration",
   "bounded-exhaustive enumeration of inputs with multi-byte symbols x extension subsets; span / tiling / fragment / ordering / rendering invariants checked on every execution",
   "All strings up to the stated length over the token alphabet including 2-, 3- and 4-byte characters, Unicode space and punctuation next to every marker, under all 192 extension subsets at small depth and the two extreme subsets deeper; every span reachable through the public API (events, Located fields, AST, labels of all diagnostics) plus the hook token stream is checked, and every report is rendered.",
   "Hook H1 (cfg cooklang_verif) exposes the token stream. Inner-span nesting is not demanded (the property does not state it). Not covered: strings beyond the bound / outside the corpus edit neighbourhood.",
   "DESIGN.md 5/C04"),
 "C05": ("exploration",
   "bounded-exhaustive enumeration of inputs (token alphabet with fence pairs at every position, fence alphabet, corpus edits); coverage of non-comment alphanumerics by event spans checked on every error-free event stream",
   "For every enumerated input whose raw event stream has no Error event, every alphanumeric character outside comments (independent scanner) must be inside the span of some event.",
   "The comment scanner is independent of the lexer and may only mask more than the lexer does (weaker obligation, never a false alarm).",
   "DESIGN.md 5/C05"),
 "C06": ("model_checking",
   "breadth-first exploration of the analysis state machine: all operation sequences up to depth n over a component alphabet (plus token strings, corpus edits), structural invariant evaluated in every reached state on the real implementation",
   "Each alphabet symbol is one operation on the analysis state (define, reference, intermediate reference, mode/duplicate switch, section, paragraph ...). All sequences up to the bound are executed on the real parser+analysis under the stated configurations and the referential-consistency invariant of the property is evaluated on every returned recipe (valid or not).",
   "States are operation sequences (no merging, so no abstraction can hide a state). 'Empty' text means length zero. Case-insensitive comparison uses simple lowercase folding on ASCII/Latin letters of the alphabet.",
   "DESIGN.md 5/C06"),
 "C14": ("exploration",
   "bounded-exhaustive differential enumeration: all strings up to n symbols over token and block alphabets x extension subsets, parse().metadata vs parse_metadata()",
   "Every enumerated input is parsed by both entry points under every listed extension subset; when both have output the metadata maps must be equal.",
   "Nothing is assumed about inputs where one of the two parses has no output (the property excludes them).",
   "DESIGN.md 5/C14"),

 "C09": ("exploration",
   "exhaustive enumeration of a finite product: every ordered pair and triple of same-quantity units x value grid (incl. every best-unit threshold) x target systems, checked against an independent SI definition table and internal agreement laws on the real converter",
   "The unit set of the bundled converter is finite (38 units); every ordered pair and triple, every unit x value x value-shape x {convert(Metric), convert(Imperial), fit, SameSystem}, a complete failure matrix and ScaledRecipe::convert on all small recipes over 12 atoms are executed. Values are a grid chosen from the code's thresholds, not all doubles.",
   "Independent table of SI definitions (NIST / US customary) written in the harness; tolerance 1e-6 against the definitions (units.toml is rounded to 9 decimals), 1e-9 for internal agreement. Real-valued domain covered on a grid only.",
   "DESIGN.md 5/C09"),
 "C11": ("exploration",
   "bounded-exhaustive enumeration of all strings up to n symbols over the aisle-format alphabet plus all single edits of realistic files; totality, span, conservation, duplicate, round-trip and lookup oracles plus an independent reference parser",
   "All strings of up to 7 (thorough 8) symbols over a 12-symbol alphabet of the aisle format (names, separators, brackets, comments, CRLF, tab, NBSP, a 2-byte letter) are parsed by the real aisle::parse; every result is checked against the invariants of the property and, for ASCII-whitespace inputs, against a reference parser written from the format description.",
   "Which of several errors is reported first is not checked. 'Randomly beyond' is outside the technique.",
   "DESIGN.md 5/C11"),
 "C12": ("exploration",
   "exhaustive grid: every cell of the 10^4-cell lookup table x offsets x whole parts x accuracies x all max denominators 1..=64 x whole limits, predicate of the property evaluated on every call of the real Number::new_approx",
   "The approximation quantises the fractional part to 10^4 cells; the grid visits every cell at several offsets, crossed with 14 whole parts around the u32 limits, 8 accuracies, all 64 denominators and 6 limits (2.1e9 calls quick), plus non-positive, non-finite and extreme inputs.",
   "Exactness is demanded within 8 ulp; nearest-ness of the chosen fraction is not demanded (the property does not state it). Continuous domain covered on a grid that hits every table cell.",
   "DESIGN.md 5/C12"),
 "C13": ("exploration",
   "exhaustive enumeration of the product documented forms x boundary values x every time-unit key x keys x spellings x converters against an independent exact computation, plus a bounded-exhaustive coherence sweep (warning <=> accessor returns nothing) over all metadata-alphabet strings up to n symbols",
   "Every documented duration / servings / tags / name-url / locale form is instantiated with boundary values around 60, 1440 and the u32 range, with every name, symbol and alias of every time unit of three converters (bundled, empty, bundled + units/spanish.toml), in `>>`, quoted and numeric front-matter spelling; expected totals are computed exactly in u128. A second sweep checks for every short string over a 38-symbol metadata alphabet under 9 standard keys that a parse-time warning appears exactly when the accessor returns nothing.",
   "Unsupported-value warnings are recognised differentially (one more warning than the same text under a non-standard key), never by message text. Key aliases (duration, serves) and untrimmed YAML list entries are not generated because the documentation leaves them open. Exact .5-minute ties may round either way.",
   "DESIGN.md 5/C13"),
 "C16": ("model_checking",
   "depth-bounded exhaustive enumeration of layer sequences from a menu of units-file layers; each sequence is built on the real ConverterBuilder (twice, from freshly parsed TOML) and compared with a reference layering model (explicit-state: states = sequences, transitions = add one layer)",
   "All sequences of up to 3 (thorough 4) layers out of a menu of 39 on top of a base file are replayed on the real builder; the model predicts for each sequence whether it must be rejected and otherwise the exact units (key lists after before/after/override layering and SI re-expansion), best lists and default system; the built converter must agree and satisfy the index invariants; no build may panic. The default converter is compared with one built from units.toml.",
   "Fraction settings are only checked through behaviour (fit/convert on a grid) because the configuration is not publicly observable. Acceptance that depends on hash-map iteration order is counted, not flagged.",
   "DESIGN.md 5/C16"),
 "C08": ("model_checking",
   "exhaustive enumeration of a finite product of recipe specs (written value x unit x lock x component kind x reference kind x servings declaration) x configurations x factors; the generator's knowledge of what was written is the reference model, every prediction is compared with the real scale / default_scale / scale_to_servings",
   "Each spec is printed to source, parsed by the real parser and scaled by 9 factors and 3 serving targets under 4 configurations; the amount law (value incl. fraction error x unit factor from an independent SI table) is checked per component, everything else must be byte-identical in the JSON image, outcome vectors must line up and name the case, default scaling must return the written value and unit, scale_to_servings(n) must equal scale(n / first).",
   "Factors are 9 representative finite positive values, not all doubles. Specs that are not valid under a configuration are outside the property and skipped (counted in the evidence).",
   "DESIGN.md 5/C08"),
 "C10": ("model_checking",
   "explicit-state breadth-first search (stateright) over the real GroupedQuantity with canonical-state de-duplication and a reference sum model carried alongside; plus exhaustive enumeration of recipes, recipe sequences and aisle configurations against a reference semantics",
   "(a) BFS over add(18 quantities) / merge(6 groups) / fit to depth 5 (thorough 6): in every reached state the per-class totals equal the reference sums and texts are kept. (b) every recipe of up to 4 (5) ingredient atoms and every sequence of up to 2 (3) recipes: group_ingredients and IngredientList agree with the reference semantics. (c) every list x every aisle configuration over 4 names: categorize conserves totals.",
   "State merging uses the whole observable state (sorted where unordered) + reference sums + depth, so merged states have equal futures. Temperature is excluded from the sum law. Known finding D7 (categorize with listed synonyms) is recorded in known_findings.json.",
   "DESIGN.md 5/C10"),
 "C15": ("model_checking",
   "bounded-exhaustive enumeration of recipes (component sequences, written value x unit strings, front-matter documents, corpus edits) each taken through 13 serialize/deserialize round trips (scalable + 4 scalings x 3 conversions) on the real serde implementations",
   "Every enumerated recipe with output is serialized, deserialized, compared (== / field by field) and re-serialized byte-identically, before scaling and after each of 4 scalings x {unconverted, metric, imperial}.",
   "Restricted to finite numbers and JSON-representable YAML (string keys, no tags). serde_json with float_roundtrip.",
   "DESIGN.md 5/C15"),
 "C18": ("model_checking",
   "depth-bounded exhaustive enumeration of call histories on a shared parser against fresh-process references, and stateless preemption-bounded (iterative context bounding) exploration of all interleavings of real threads sharing one parser, scheduling points at every token and event via the cfg hook",
   "Histories: all sequences of up to 3 (4) calls over 8 inputs that touch every piece of per-parse state, on a shared instance, a clone and a new instance in one process; each observation (recipe, ordered diagnostics, metadata-only parse, scaled+converted recipe) must equal the one from a fresh subprocess. Schedules: all schedules with at most 2 (3) preemptions of 2-3 real threads running 1-2 parses each; replay of a failing schedule must reproduce it.",
   "Threads are serialised and switch only at hook points and thread exit; weak-memory effects and races inside one token's processing are not explored. loom / shuttle cannot drive this crate (it uses std Arc / LazyLock directly).",
   "DESIGN.md 5/C18"),
 "C19": ("model_checking",
   "bounded-exhaustive enumeration of canonically valid inputs x factors compared with the core recipe as reference model, and of all ingredient lists up to n over a menu with every permutation and selection compared with per-key reference sums, on the real bindings code",
   "Mirror: all strings up to 4 (5) symbols over a canonical component alphabet, the token alphabet and corpus edits that the canonical parser accepts, x 3 factors. Combine: all multisets of up to 4 (5) ingredients out of 26 colliding on two names, in every order and with every selection.",
   "The bindings sources are compiled as an rlib through /verif/harness/bindings-shim (same files, current working tree); Amount fields are read and built through the cfg(cooklang_verif) hook.",
   "DESIGN.md 5/C19"),
}

PENDING = {
 "C01": "check not built yet (reference model + spelling enumerator in progress)",
 "C02": "check not built yet (in progress)",
 "C07": "check not built yet (in progress)",
 "C08": "check not built yet (in progress)",
 "C09": "check not built yet (in progress)",
 "C10": "check not built yet (in progress)",
 "C11": "check not built yet (in progress)",
 "C12": "check not built yet (in progress)",
 "C13": "check not built yet (in progress)",
 "C15": "check not built yet (in progress)",
 "C16": "check not built yet (in progress)",
 "C17": "check not built yet (in progress)",
 "C18": "check not built yet (in progress)",
 "C19": "check not built yet (in progress)",
}

def main():
    checks = []
    for pid in sorted(CHECKS):
        cat, tech, text, note, ref = CHECKS[pid]
        checks.append({
            "property_id": pid,
            "quick_cmd": f"./check {pid} quick",
            "thorough_cmd": f"./check {pid} thorough",
            "evidence_file": f"/verif/evidence/{pid}.json",
            "replay_cmd_template": "./check replay {path}",
            "engine": "engine",
            "level_claimed": {"category": cat, "text": text, "design_ref": ref},
            "level_note": note,
            "technique": tech,
        })
    m = {
        "version": 1,
        "setup_cmd": "./setup.sh",
        "hooks": {
            "guard": "cooklang_verif",
            "enable": "RUSTFLAGS=--cfg cooklang_verif (set in /verif/harness/.cargo/config.toml; the harness depends on cooklang by path = /repo and on the bindings sources through /verif/harness/bindings-shim)",
            "baseline_off_cmd": "cd /repo && cargo nextest run --workspace --no-fail-fast --offline || cargo test --workspace --no-fail-fast --offline",
            "source_commits": REPO_HOOK_COMMITS,
            "add_only": True,
        },
        "engines": [
            {"name": "engine", "path": "/verif/harness/engine", "serves_properties": sorted(CHECKS),
             "kind_free_text": "Rust binary linking the real cooklang crate (and the bindings sources) from /repo; bounded-exhaustive exploration of inputs, operation sequences, configurations and thread schedules with invariant / reference-model oracles"},
        ],
        "checks": checks,
        "not_applicable": [{"property_id": k, "reason": v} for k, v in sorted(PENDING.items()) if k not in CHECKS],
        "notes": "See DESIGN.md. Known genuine defects: known_findings.json.",
    }
    with open(os.path.join(os.path.dirname(__file__), "..", "MANIFEST.json"), "w") as f:
        json.dump(m, f, indent=1)
        f.write("\n")

if __name__ == "__main__":
    main()
