#!/bin/bash
# usage: tools/confirm_seed.sh <seed dir with patch.diff + demo.rs> [worktree]
# Confirms in a scratch worktree: patch applies, full suite passes with it, demo fails with it, demo passes without it.
set -u
D=$(realpath "$1"); WT=${2:-/tmp/wt-confirm}
[ -d "$WT" ] || git -C /repo worktree add -q --detach "$WT" HEAD
cd "$WT" || exit 2
git checkout -q --detach $(git -C /repo rev-parse HEAD) 2>/dev/null; git checkout -q -- . ; git clean -fdq -e target
export CARGO_TARGET_DIR=$WT/target
place=$(head -1 "$D/demo.rs" | sed -n 's/.*place at \([^ ]*\).*/\1/p')
[ -z "$place" ] && place=$(head -3 "$D/demo.rs" | grep -o '[a-z/_]*tests/[A-Za-z0-9_]*\.rs\|bindings/src/[A-Za-z0-9_]*\.rs' | head -1)
echo "demo placement: $place"
git apply "$D/patch.diff" || { echo "RESULT patch does not apply"; exit 1; }
suite=$(cargo nextest run --workspace --no-fail-fast --offline 2>&1 | grep -E "tests run:" | tail -1)
echo "suite with change: $suite"
mkdir -p "$(dirname "$place")"; cp "$D/demo.rs" "$place"
wire=""
case "$place" in bindings/src/*) mod=$(basename "$place" .rs); echo "#[cfg(test)] mod $mod;" >> bindings/src/lib.rs; wire=1;; esac
tname=$(basename "$place" .rs)
if [ -n "$wire" ]; then cmd="cargo test -p cooklang-bindings --offline $tname"; elif [[ "$place" == bindings/* ]]; then cmd="cargo test -p cooklang-bindings --offline --test $tname"; else cmd="cargo test --offline --test $tname"; fi
withfull=$($cmd 2>&1); with=$(echo "$withfull" | grep -E "^test result|panicked" | head -3)
echo "demo with change: $with"
git apply -R "$D/patch.diff"
without=$($cmd 2>&1 | grep -E "^test result|error(\[|:)" | head -3)
echo "demo without change: $without"
git checkout -q -- . ; git clean -fdq -e target
ok=1
echo "$suite" | grep -q "181 passed" || ok=0
echo "$withfull" | grep -qE "FAILED|failed|panicked" || ok=0
echo "$without" | grep -q "test result: ok" || ok=0
echo "RESULT confirmed=$ok"
