//! C10: grouping and listing ingredients conserves quantities

use crate::common::*;
use cooklang::aisle::AisleConf;
use cooklang::ingredient_list::IngredientList;
use cooklang::quantity::{GroupedQuantity, Number, Quantity, ScaledQuantity, Value};
use cooklang::{Converter, CooklangParser, Extensions};
use serde_json::{json, Value as J};
use stateright::{Checker, Model, Property};
use std::collections::BTreeMap;
use std::hash::{Hash, Hasher};
use std::sync::Arc;

// ---------------------------------------------------------------------------
// class sums (shared oracle)

/// class -> (sum of range starts, sum of range ends) in the SI base unit of the class;
/// texts -> multiset of (text, unit)
#[derive(Clone, Debug, Default, PartialEq)]
pub struct Sums {
    pub num: BTreeMap<String, (f64, f64)>,
    pub texts: BTreeMap<(String, String), usize>,
    pub temperature: usize,
}

impl Sums {
    fn add(&mut self, other: &Sums) {
        for (k, (a, b)) in &other.num {
            let e = self.num.entry(k.clone()).or_insert((0.0, 0.0));
            e.0 += a;
            e.1 += b;
        }
        for (k, n) in &other.texts {
            *self.texts.entry(k.clone()).or_insert(0) += n;
        }
        self.temperature += other.temperature;
    }
    fn approx_eq(&self, other: &Sums) -> bool {
        if self.texts != other.texts || (self.temperature > 0) != (other.temperature > 0) {
            return false;
        }
        let keys: std::collections::BTreeSet<&String> = self.num.keys().chain(other.num.keys()).collect();
        for k in keys {
            let a = self.num.get(k).copied().unwrap_or((0.0, 0.0));
            let b = other.num.get(k).copied().unwrap_or((0.0, 0.0));
            for (x, y) in [(a.0, b.0), (a.1, b.1)] {
                let scale = x.abs().max(y.abs()).max(1e-12);
                if (x - y).abs() > 1e-6 * scale {
                    return false;
                }
            }
        }
        true
    }
    fn canon(&self) -> String {
        let num: Vec<String> = self.num.iter().map(|(k, (a, b))| format!("{k}={:.6e}..{:.6e}", a, b)).collect();
        format!("{num:?}{:?}t{}", self.texts, (self.temperature > 0) as u8)
    }
}

pub struct Oracle {
    pub conv: Converter,
    /// unit symbol/name -> (class, factor to base, offset)
    si: BTreeMap<String, (String, f64)>,
}

impl Oracle {
    pub fn new() -> Self {
        let conv = Converter::bundled();
        let table = crate::c09::si_table();
        let mut si = BTreeMap::new();
        for u in conv.all_units() {
            let keys: Vec<String> = u.names.iter().chain(&u.symbols).chain(&u.aliases).map(|s| s.to_string()).collect();
            if let Some((_, q, f, _)) = table.iter().find(|(k, q, _, _)| *q == u.physical_quantity && keys.iter().any(|x| x == k)) {
                for k in &keys {
                    si.insert(k.clone(), (q.to_string(), *f));
                }
            }
        }
        Oracle { conv, si }
    }

    pub fn sums_of<'a>(&self, qs: impl Iterator<Item = &'a ScaledQuantity>) -> Sums {
        let mut s = Sums::default();
        for q in qs {
            let unit = q.unit().map(|u| u.to_string());
            match q.value() {
                Value::Text(t) => {
                    *s.texts.entry((t.clone(), unit.unwrap_or_default())).or_insert(0) += 1;
                }
                v => {
                    let (lo, hi) = match v {
                        Value::Number(n) => (n.value(), n.value()),
                        Value::Range { start, end } => (start.value(), end.value()),
                        Value::Text(_) => unreachable!(),
                    };
                    let (class, f) = match &unit {
                        None => ("<no unit>".to_string(), 1.0),
                        Some(u) => match self.si.get(u) {
                            Some((c, f)) => (c.clone(), *f),
                            None => match self.conv.find_unit(u) {
                                // a known unit that is not in the independent table: use its own ratio
                                Some(info) => (info.physical_quantity.to_string(), info.ratio),
                                None => (format!("unit:{u}"), 1.0),
                            },
                        },
                    };
                    if class == "temperature" {
                        s.temperature += 1;
                        continue;
                    }
                    let e = s.num.entry(class).or_insert((0.0, 0.0));
                    e.0 += lo * f;
                    e.1 += hi * f;
                }
            }
        }
        s
    }
}

fn q(v: f64, unit: Option<&str>) -> ScaledQuantity {
    Quantity::new(Value::Number(Number::Regular(v)), unit.map(|s| s.to_string()))
}
fn qr(a: f64, b: f64, unit: Option<&str>) -> ScaledQuantity {
    Quantity::new(Value::Range { start: Number::Regular(a), end: Number::Regular(b) }, unit.map(|s| s.to_string()))
}
fn qt(t: &str, unit: Option<&str>) -> ScaledQuantity {
    Quantity::new(Value::Text(t.to_string()), unit.map(|s| s.to_string()))
}

fn alphabet() -> Vec<ScaledQuantity> {
    vec![
        q(1.0, Some("kg")),
        q(500.0, Some("g")),
        q(8.0, Some("oz")),
        q(2.0, Some("l")),
        q(250.0, Some("ml")),
        q(1.0, Some("cup")),
        q(3.0, None),
        q(0.5, None),
        qr(1.0, 2.0, None),
        qr(1.0, 2.0, Some("kg")),
        q(2.0, Some("bag")),
        q(1.5, Some("bag")),
        q(1.0, Some("pinch")),
        q(2.0, Some("Stk")),
        qt("some", None),
        qt("a bit", Some("kg")),
        q(10.0, Some("min")),
        q(180.0, Some("C")),
        Quantity::new(Value::Number(Number::Fraction { whole: 1, num: 1, den: 2, err: 0.0 }), Some("tsp".to_string())),
        // known units that are not in any best-unit list, met before and after a best unit of the same quantity
        q(2.0, Some("dl")),
        q(1.0, Some("pint")),
        // above 2^32 with a fractional part, in a unit with fractions enabled and no whole-part limit
        q(5000000000.5, Some("lb")),
    ]
}

const MERGE_SETS: [&[usize]; 6] = [&[0, 1], &[3, 13], &[10, 6, 8], &[14, 9, 2], &[], &[15, 5, 12, 16]];

// ---------------------------------------------------------------------------
// (a) stateright model over the real GroupedQuantity

#[derive(Clone, Debug, PartialEq, Hash)]
pub enum Act {
    Add(usize),
    Merge(usize),
    Fit,
}

#[derive(Clone, Debug)]
pub struct St {
    depth: usize,
    group: GroupedQuantity,
    reference: Sums,
    key: String,
    bad: Option<String>,
}

impl PartialEq for St {
    fn eq(&self, o: &Self) -> bool {
        self.depth == o.depth && self.key == o.key
    }
}
impl Eq for St {}
impl Hash for St {
    fn hash<H: Hasher>(&self, h: &mut H) {
        self.depth.hash(h);
        self.key.hash(h);
    }
}

pub struct GroupModel {
    oracle: Arc<Oracle>,
    alphabet: Vec<ScaledQuantity>,
    alpha_sums: Vec<Sums>,
    merge_groups: Vec<(GroupedQuantity, Sums)>,
    max_depth: usize,
}

fn canon_group(g: &GroupedQuantity) -> String {
    // canonical form of the whole observable state; the map of unknown units is
    // unordered, so its entries are sorted (equal forms have equal futures)
    let mut items: Vec<String> = g.iter().map(|q| format!("{q:?}")).collect();
    // texts keep their relative order (the `other` list is ordered), numbers are unique per class
    let texts: Vec<String> = items.iter().filter(|s| s.contains("Text(")).cloned().collect();
    items.retain(|s| !s.contains("Text("));
    items.sort();
    format!("{items:?}{texts:?}")
}

impl GroupModel {
    fn new(oracle: Arc<Oracle>, max_depth: usize) -> Self {
        let alphabet = alphabet();
        let alpha_sums: Vec<Sums> = alphabet.iter().map(|q| oracle.sums_of(std::iter::once(q))).collect();
        let merge_groups = MERGE_SETS
            .iter()
            .map(|set| {
                let mut g = GroupedQuantity::empty();
                let mut s = Sums::default();
                for &i in set.iter() {
                    g.add(&alphabet[i], &oracle.conv);
                    s.add(&alpha_sums[i]);
                }
                (g, s)
            })
            .collect();
        GroupModel { oracle, alphabet, alpha_sums, merge_groups, max_depth }
    }

    fn mk(&self, depth: usize, group: GroupedQuantity, reference: Sums, bad: Option<String>) -> St {
        let bad = bad.or_else(|| {
            let got = self.oracle.sums_of(group.iter());
            if !got.approx_eq(&reference) {
                return Some(format!("group holds {got:?} but the inputs sum to {reference:?}; group = {}", group));
            }
            if group.len() != group.iter().count() || group.is_empty() != (group.iter().count() == 0) {
                return Some(format!("len() = {} but iter() yields {} quantities", group.len(), group.iter().count()));
            }
            if group.clone().into_vec().len() != group.len() {
                return Some("into_vec() length differs from len()".to_string());
            }
            None
        });
        let key = format!("{}|{}", canon_group(&group), reference.canon());
        St { depth, group, reference, key, bad }
    }
}

impl Model for GroupModel {
    type State = St;
    type Action = Act;

    fn init_states(&self) -> Vec<St> {
        vec![self.mk(0, GroupedQuantity::empty(), Sums::default(), None)]
    }

    fn actions(&self, s: &St, out: &mut Vec<Act>) {
        if s.depth >= self.max_depth || s.bad.is_some() {
            return;
        }
        for i in 0..self.alphabet.len() {
            out.push(Act::Add(i));
        }
        for i in 0..self.merge_groups.len() {
            out.push(Act::Merge(i));
        }
        out.push(Act::Fit);
    }

    fn next_state(&self, s: &St, a: Act) -> Option<St> {
        let mut g = s.group.clone();
        let mut r = s.reference.clone();
        let conv = &self.oracle.conv;
        let res = guarded(|| match &a {
            Act::Add(i) => {
                g.add(&self.alphabet[*i], conv);
                r.add(&self.alpha_sums[*i]);
            }
            Act::Merge(i) => {
                g.merge(&self.merge_groups[*i].0, conv);
                r.add(&self.merge_groups[*i].1);
            }
            Act::Fit => {
                let _ = g.fit(conv);
            }
        });
        let bad = res.err().map(|m| format!("panic in {a:?}: {m}"));
        Some(self.mk(s.depth + 1, g, r, bad))
    }

    fn properties(&self) -> Vec<Property<Self>> {
        vec![Property::always("grouped totals equal the sums of the inputs", |_, s: &St| s.bad.is_none())]
    }
}

fn run_group_model(depth: usize) -> (usize, usize) {
    let c = ctx();
    let oracle = Arc::new(Oracle::new());
    let model = GroupModel::new(oracle, depth);
    let checker = model.checker().threads(16).spawn_bfs().join();
    let unique = checker.unique_state_count();
    let total = checker.state_count();
    if let Some(path) = checker.discovery("grouped totals equal the sums of the inputs") {
        let last = path.last_state().clone();
        let actions: Vec<String> = path.into_actions().iter().map(|a| format!("{a:?}")).collect();
        c.violation(Violation::new(
            if last.bad.as_deref().unwrap_or("").starts_with("panic") { "panic in GroupedQuantity" } else { "grouped quantity does not conserve the inputs" },
            format!("after {actions:?}: {}", last.bad.unwrap_or_default()),
            json!({"kind": "group", "actions": actions}),
        ));
    }
    c.part(json!({"part": "GroupedQuantity add/merge/fit, stateright BFS", "depth": depth, "unique_states": unique, "generated_states": total, "max_depth_reached": checker.max_depth()}));
    (unique, total)
}

// ---------------------------------------------------------------------------
// (b) recipes and ingredient lists

#[derive(Clone, Debug)]
struct Atom {
    src: &'static str,
    name: &'static str,
    /// 0 definition, 1 reference (&), 2 intermediate reference
    kind: u8,
    hidden: bool,
    alias: Option<&'static str>,
    display: &'static str,
    qty: Option<ScaledQuantity>,
    /// printed verbatim as its own block(s) instead of inside a step
    block: bool,
}

fn atoms() -> Vec<Atom> {
    let a = |src, name, kind, hidden, alias: Option<&'static str>, display, qty| Atom { src, name, kind, hidden, alias, display, qty, block: false };
    vec![
        a("@a{1%kg}", "a", 0, false, None, "a", Some(q(1.0, Some("kg")))),
        a("@&a{500%g}", "a", 1, false, None, "a", Some(q(500.0, Some("g")))),
        a("@a{2}", "a", 0, false, None, "a", Some(q(2.0, None))),
        a("@&a{1%l}", "a", 1, false, None, "a", Some(q(1.0, Some("l")))),
        a("@&A{some}", "A", 1, false, None, "A", Some(qt("some", None))),
        a("@-a{4}", "a", 0, true, None, "a", Some(q(4.0, None))),
        a("@?a{1%bag}", "a", 0, false, None, "a", Some(q(1.0, Some("bag")))),
        a("@+a{3%kg}", "a", 0, false, None, "a", Some(q(3.0, Some("kg")))),
        a("@a|z{1.5}", "a", 0, false, Some("z"), "z", Some(q(1.5, None))),
        a("@b{1-2%cups}", "b", 0, false, None, "b", Some(qr(1.0, 2.0, Some("cups")))),
        a("@&b{1%cup}", "b", 1, false, None, "b", Some(q(1.0, Some("cup")))),
        a("@&b", "b", 1, false, None, "b", None),
        a("@@./r/a{2%kg}", "a", 0, false, None, "a", Some(q(2.0, Some("kg")))),
        a("@c", "c", 0, false, None, "c", None),
        a("@&(~1)d{1%kg}", "d", 2, false, None, "d", Some(q(1.0, Some("kg")))),
        // definitions made in a components-mode block (not in a step)
        Atom { src: ">> [mode]: components\n@a\n>> [mode]: all", name: "a", kind: 0, hidden: false, alias: None, display: "a", qty: None, block: true },
        Atom { src: ">> [mode]: components\n@b{2%cups}\n>> [mode]: all", name: "b", kind: 0, hidden: false, alias: None, display: "b", qty: Some(q(2.0, Some("cups"))), block: true },
    ]
}

struct Expected {
    /// per definition in recipe order: (atom index in the recipe, name, display, listed, sums)
    defs: Vec<(usize, String, String, bool, Sums)>,
}

/// reference semantics for the relations between the atoms of one recipe
fn expect_recipe(oracle: &Oracle, atoms: &[&Atom]) -> Expected {
    let mut defs: Vec<(usize, String, String, bool, Sums)> = Vec::new();
    for (i, a) in atoms.iter().enumerate() {
        let own = a.qty.as_ref().map(|q| oracle.sums_of(std::iter::once(q))).unwrap_or_default();
        match a.kind {
            0 => defs.push((i, a.name.to_string(), a.display.to_string(), !a.hidden, own)),
            1 => {
                // last earlier definition with the same name, ignoring case
                if let Some(d) = defs.iter_mut().rev().find(|d| d.1.to_lowercase() == a.name.to_lowercase()) {
                    d.4.add(&own);
                }
            }
            _ => {}
        }
    }
    Expected { defs }
}

fn recipe_source(atoms: &[&Atom]) -> String {
    // the intermediate reference needs an earlier step: put every atom in its own step
    atoms.iter().map(|a| if a.block { a.src.to_string() } else { format!("use {}", a.src) }).collect::<Vec<_>>().join("\n\n")
}

struct RecipeEnv {
    oracle: Oracle,
    parser: CooklangParser,
    atoms: Vec<Atom>,
}

fn decode_recipe(n_atoms: usize, mut idx: u64, max_len: u32) -> Vec<usize> {
    let k = n_atoms as u64;
    let mut len = 1u32;
    loop {
        let cnt = k.pow(len);
        if idx < cnt || len == max_len {
            break;
        }
        idx -= cnt;
        len += 1;
    }
    let mut v = Vec::new();
    for _ in 0..len {
        v.push((idx % k) as usize);
        idx /= k;
    }
    v.reverse();
    v
}

fn count_recipes(n_atoms: usize, max_len: u32) -> u64 {
    (1..=max_len).map(|l| (n_atoms as u64).pow(l)).sum()
}

/// checks one sequence of recipes; returns None when some recipe is not valid (outside the property)
fn check_recipes(env: &RecipeEnv, recipes: &[Vec<usize>], factor: f64) -> Option<Vec<Violation>> {
    let conv = &env.oracle.conv;
    let case = json!({"kind": "recipes", "recipes": recipes.iter().map(|r| recipe_source(&r.iter().map(|&i| &env.atoms[i]).collect::<Vec<_>>())).collect::<Vec<_>>(), "factor": factor});
    let mut out = Vec::new();
    let mut list = IngredientList::new();
    let mut expected_list: BTreeMap<String, Sums> = BTreeMap::new();
    for r in recipes {
        let atoms: Vec<&Atom> = r.iter().map(|&i| &env.atoms[i]).collect();
        let src = recipe_source(&atoms);
        let res = env.parser.parse(&src);
        if !res.is_valid() {
            return None;
        }
        let rec = res.into_output()?;
        let scaled = if factor == 1.0 { rec.default_scale() } else { rec.scale(factor, conv) };
        let exp = expect_recipe(&env.oracle, &atoms);
        let grouped = scaled.group_ingredients(conv);
        macro_rules! fail {
            ($class:expr, $($arg:tt)*) => {{
                out.push(Violation::new($class, format!("recipe {src:?} x{factor}: {}", format!($($arg)*)), case.clone()));
                return Some(out);
            }};
        }
        if grouped.len() != exp.defs.len() {
            fail!("group_ingredients entry count", "{} entries, {} definitions expected", grouped.len(), exp.defs.len());
        }
        for (g, (ai, name, display, listed, sums)) in grouped.iter().zip(&exp.defs) {
            if g.ingredient.name != *name || g.index != *ai {
                fail!("group_ingredients order", "entry for ingredient {} {:?}, expected the definition at index {ai} {name:?}", g.index, g.ingredient.name);
            }
            if g.ingredient.display_name() != display.as_str() {
                fail!("display name", "{:?} vs {display:?}", g.ingredient.display_name());
            }
            if g.ingredient.modifiers().should_be_listed() != *listed {
                fail!("listed flag", "ingredient {name:?}: should_be_listed = {}", !listed);
            }
            let mut want = Sums::default();
            // scaling multiplies numeric amounts
            for (k, (a, b)) in &sums.num {
                want.num.insert(k.clone(), (a * factor, b * factor));
            }
            want.texts = sums.texts.clone();
            let got = env.oracle.sums_of(g.quantity.iter());
            if !got.approx_eq(&want) {
                fail!("grouped ingredient does not conserve its quantities", "ingredient {name:?}: grouped {} = {got:?}, expected {want:?}", g.quantity);
            }
            if *listed {
                expected_list.entry(display.clone()).or_default().add(&want);
            }
        }
        list.add_recipe(&scaled, conv);
    }
    // the list
    let got_names: Vec<&String> = list.iter().map(|(n, _)| n).collect();
    let want_names: Vec<&String> = expected_list.keys().collect();
    if got_names != want_names {
        out.push(Violation::new("ingredient list names", format!("list has {got_names:?}, expected {want_names:?}"), case.clone()));
        return Some(out);
    }
    for (name, g) in list.iter() {
        let got = env.oracle.sums_of(g.iter());
        let want = &expected_list[name];
        if !got.approx_eq(want) {
            out.push(Violation::new("ingredient list does not conserve quantities", format!("{name:?}: listed {g} = {got:?}, expected {want:?}"), case.clone()));
            return Some(out);
        }
    }
    Some(out)
}

// ---------------------------------------------------------------------------
// (c) categorize

fn aisle_configs() -> Vec<String> {
    // lines: ordered non-empty subsets of the names, at most 2 names per line;
    // configurations: 1 or 2 categories with 1..=2 lines each, no name twice
    let names = ["a", "b", "c", "z"];
    let mut lines: Vec<Vec<&str>> = Vec::new();
    for x in names {
        lines.push(vec![x]);
        for y in names {
            if x != y {
                lines.push(vec![x, y]);
            }
        }
    }
    let disjoint = |a: &Vec<&str>, b: &Vec<&str>| a.iter().all(|x| !b.contains(x));
    let mut cats: Vec<Vec<Vec<&str>>> = Vec::new();
    for l1 in &lines {
        cats.push(vec![l1.clone()]);
        for l2 in &lines {
            if disjoint(l1, l2) {
                cats.push(vec![l1.clone(), l2.clone()]);
            }
        }
    }
    let mut out = vec![String::new()];
    let text = |c: &Vec<Vec<&str>>, name: &str| format!("[{name}]\n{}\n", c.iter().map(|l| l.join("|")).collect::<Vec<_>>().join("\n"));
    for c1 in &cats {
        out.push(text(c1, "x"));
        for c2 in &cats {
            let used: Vec<&str> = c1.iter().flatten().copied().collect();
            if c2.iter().flatten().all(|n| !used.contains(n)) {
                out.push(format!("{}{}", text(c1, "x"), text(c2, "other")));
            }
        }
    }
    out
}

fn check_categorize(env: &RecipeEnv, recipe: &[usize], aisle_src: &str) -> Option<Vec<Violation>> {
    let conv = &env.oracle.conv;
    let atoms: Vec<&Atom> = recipe.iter().map(|&i| &env.atoms[i]).collect();
    let src = recipe_source(&atoms);
    let res = env.parser.parse(&src);
    if !res.is_valid() {
        return None;
    }
    let scaled = res.into_output()?.default_scale();
    let list = IngredientList::from_recipe(&scaled, conv);
    let before: Vec<(String, Sums)> = list.iter().map(|(n, g)| (n.clone(), env.oracle.sums_of(g.iter()))).collect();
    let mut total_before = Sums::default();
    for (_, s) in &before {
        total_before.add(s);
    }
    let aisle: AisleConf = cooklang::aisle::parse(aisle_src).ok()?;
    let info = aisle.ingredients_info();
    // do two listed names share (category, common name)?
    let mut targets: BTreeMap<(String, String), usize> = BTreeMap::new();
    for (n, _) in &before {
        if let Some(i) = info.get(n.as_str()) {
            *targets.entry((i.category.to_string(), i.common_name.to_string())).or_insert(0) += 1;
        }
    }
    let collision = targets.values().any(|&n| n > 1);
    let cat = list.categorize(&aisle);
    let mut total_after = Sums::default();
    let mut n_after = 0;
    for (_c, l) in cat.iter() {
        for (_n, g) in l.iter() {
            total_after.add(&env.oracle.sums_of(g.iter()));
            n_after += 1;
        }
    }
    let case = json!({"kind": "categorize", "recipe": src, "aisle": aisle_src});
    let mut out = Vec::new();
    if !total_after.approx_eq(&total_before) {
        let class = if collision { "categorize loses quantities: listed synonyms share a common name" } else { "categorize loses quantities" };
        out.push(Violation::new(
            class,
            format!("list {before:?} categorized with {aisle_src:?}: totals before {total_before:?}, after {total_after:?} ({n_after} entries){}", if collision { "; synonym collision: two listed names map to the same (category, common name)" } else { "" }),
            case,
        ));
    }
    Some(out)
}

pub fn replay(case: &J) -> Vec<Violation> {
    match case["kind"].as_str().unwrap_or("") {
        "group" => {
            let oracle = Arc::new(Oracle::new());
            let model = GroupModel::new(oracle, usize::MAX);
            let mut s = model.init_states().remove(0);
            let mut trace = Vec::new();
            for a in case["actions"].as_array().cloned().unwrap_or_default() {
                let a = a.as_str().unwrap_or("").to_string();
                let act = if a == "Fit" {
                    Act::Fit
                } else if let Some(n) = a.strip_prefix("Add(").and_then(|x| x.strip_suffix(')')).and_then(|x| x.parse().ok()) {
                    Act::Add(n)
                } else if let Some(n) = a.strip_prefix("Merge(").and_then(|x| x.strip_suffix(')')).and_then(|x| x.parse().ok()) {
                    Act::Merge(n)
                } else {
                    continue;
                };
                trace.push(a);
                s = model.next_state(&s, act).unwrap();
                if let Some(b) = &s.bad {
                    return vec![Violation::new("grouped quantity does not conserve the inputs", format!("after {trace:?}: {b}"), case.clone())];
                }
            }
            vec![]
        }
        "recipes" | "categorize" => {
            let env = RecipeEnv { oracle: Oracle::new(), parser: CooklangParser::new(Extensions::all(), Converter::bundled()), atoms: atoms() };
            // recover atom indices from the sources
            let find = |src: &str| -> Vec<usize> { src.split("\n\n").filter_map(|p| env.atoms.iter().position(|a| p == format!("use {}", a.src) || (a.block && p == a.src))).collect() };
            if case["kind"] == "recipes" {
                let recipes: Vec<Vec<usize>> = case["recipes"].as_array().map(|a| a.iter().map(|s| find(s.as_str().unwrap_or(""))).collect()).unwrap_or_default();
                check_recipes(&env, &recipes, case["factor"].as_f64().unwrap_or(1.0)).unwrap_or_default()
            } else {
                check_categorize(&env, &find(case["recipe"].as_str().unwrap_or("")), case["aisle"].as_str().unwrap_or("")).unwrap_or_default()
            }
        }
        _ => vec![],
    }
}

pub fn run(tier: Tier) {
    let c = ctx();
    c.set_rule("(a) explicit-state BFS (stateright) over the real GroupedQuantity: actions add(one of 22 quantities: two units per physical quantity across systems, two known units outside every best-unit list (dl, pint), two unknown units, unit-less, numbers, ranges, fractions, text with and without unit, time, temperature), merge(one of 6 prebuilt groups), fit; states de-duplicated by a canonical serialisation of the whole group + reference sums + depth; invariant in every state: per physical quantity / unknown unit / unit-less the total range equals the reference sum, every text value kept verbatim with multiplicity, len/iter/into_vec agree; (b) every recipe of <= n ingredient components over 17 atoms (definition, components-mode definition, reference, other-case reference, hidden, optional, new, alias, recipe path, no quantity, intermediate reference) and every sequence of <= 3 such recipes through group_ingredients and IngredientList::add_recipe, compared with a reference semantics (each quantity once, under its definition, recipe order, hidden / reference-only not listed), scaled by 1 and 3; (c) every such list x every aisle configuration over names {a,b,c,z} with synonyms and 1-2 categories: categorize conserves the totals; non-trivial = states / valid recipe sequences; distinct = canonical states, distinct sequences");
    let depth = tier.pick(5, 6);
    let (unique, total) = run_group_model(depth);
    c.states.fetch_add(unique as u64, std::sync::atomic::Ordering::Relaxed);
    c.transitions.fetch_add(total as u64, std::sync::atomic::Ordering::Relaxed);
    c.traces_validated.fetch_add(total as u64, std::sync::atomic::Ordering::Relaxed);
    c.evaluations.fetch_add(total as u64, std::sync::atomic::Ordering::Relaxed);
    c.nontrivial.fetch_add(unique as u64, std::sync::atomic::Ordering::Relaxed);
    if c.has_violations() {
        return;
    }
    let env = Arc::new(RecipeEnv { oracle: Oracle::new(), parser: CooklangParser::new(Extensions::all(), Converter::bundled()), atoms: atoms() });
    let na = env.atoms.len();
    // (b1) single recipes
    let max_len = tier.pick(4, 5);
    let total = count_recipes(na, max_len);
    let e = env.clone();
    let valid = Arc::new(std::sync::atomic::AtomicU64::new(0));
    let v2 = valid.clone();
    sweep(&format!("C10 recipes of 1..={max_len} of {na} ingredient atoms x factors {{1,3}}"), total, {
        let e = env.clone();
        move |i| json!({"kind": "recipes", "recipes": [recipe_source(&decode_recipe(na, i, max_len).iter().map(|&i| &e.atoms[i]).collect::<Vec<_>>())], "factor": 1.0})
    }, |idx, local| {
        let r = decode_recipe(na, idx, max_len);
        let mut out = Vec::new();
        for f in [1.0, 3.0] {
            local.evaluations += 1;
            if let Some(v) = check_recipes(&e, &[r.clone()], f) {
                local.nontrivial += 1;
                v2.fetch_add(1, std::sync::atomic::Ordering::Relaxed);
                out.extend(v);
            } else {
                local.outcome("recipe not valid (outside the property)");
            }
        }
        if idx % (total / 4) == 33 {
            c.sample(json!({"recipe": recipe_source(&r.iter().map(|&i| &e.atoms[i]).collect::<Vec<_>>())}));
        }
        out
    });
    if c.has_violations() {
        return;
    }
    // (b2) sequences of recipes: pool = recipes of <= 2 atoms
    let pool = count_recipes(na, 2);
    let seq_len: u32 = tier.pick(2, 3);
    let total: u64 = (1..=seq_len).map(|l| pool.pow(l)).sum();
    let e = env.clone();
    let decode_seq = move |mut idx: u64| -> Vec<Vec<usize>> {
        let mut len = 1;
        loop {
            let cnt = pool.pow(len);
            if idx < cnt || len == seq_len {
                break;
            }
            idx -= cnt;
            len += 1;
        }
        let mut v = Vec::new();
        for _ in 0..len {
            v.push(decode_recipe(na, idx % pool, 2));
            idx /= pool;
        }
        v
    };
    let d2 = decode_seq.clone();
    let e2 = env.clone();
    sweep(&format!("C10 sequences of 1..={seq_len} recipes (pool: {pool} recipes of <= 2 atoms) into one IngredientList"), total, move |i| {
        json!({"kind": "recipes", "recipes": d2(i).iter().map(|r| recipe_source(&r.iter().map(|&i| &e2.atoms[i]).collect::<Vec<_>>())).collect::<Vec<_>>(), "factor": 1.0})
    }, |idx, local| {
        let seq = decode_seq(idx);
        local.evaluations += 1;
        match check_recipes(&e, &seq, 1.0) {
            Some(v) => {
                local.nontrivial += 1;
                v
            }
            None => vec![],
        }
    });
    if c.has_violations() {
        return;
    }
    // (c) categorize
    let confs = Arc::new(aisle_configs());
    let nconf = confs.len() as u64;
    let pool3 = count_recipes(na, tier.pick(2, 3));
    let ml = tier.pick(2, 3);
    let e = env.clone();
    let cf = confs.clone();
    let e3 = env.clone();
    sweep(&format!("C10 categorize: {pool3} recipes of <= {ml} atoms x {nconf} aisle configurations"), pool3 * nconf, move |i| {
        json!({"kind": "categorize", "recipe": recipe_source(&decode_recipe(na, i / nconf, ml).iter().map(|&i| &e3.atoms[i]).collect::<Vec<_>>()), "aisle": cf[(i % nconf) as usize]})
    }, |idx, local| {
        let r = decode_recipe(na, idx / nconf, ml);
        local.evaluations += 1;
        match check_categorize(&e, &r, &confs[(idx % nconf) as usize]) {
            Some(v) => {
                local.nontrivial += 1;
                v
            }
            None => vec![],
        }
    });
    c.note(format!("{} single-recipe evaluations were valid recipes", valid.load(std::sync::atomic::Ordering::Relaxed)));
    c.note("states / transitions are those of the stateright search over GroupedQuantity (unique canonical states / generated successor states); every transition calls the real add / merge / fit, so every model trace is an implementation trace");
    c.assume("temperature is excluded from the sum law (offset scales are not additive in a unit-independent way) but must not disappear; amounts are compared in SI base units from an independent table with tolerance 1e-6");
    c.sample(json!({"group actions": ["Add(0)", "Add(1)", "Merge(3)", "Fit"], "meaning": "1 kg + 500 g, merge {a bit kg, 1-2 kg, 8 oz}, fit"}));
}
