//! C13: standard metadata values are interpreted as documented

use crate::common::*;
use crate::strings::*;
use cooklang::convert::{ConverterBuilder, PhysicalQuantity, UnitsFile};
use cooklang::error::Severity;
use cooklang::metadata::{CooklangValueExt, RecipeTime};
use cooklang::{Converter, CooklangParser, Extensions};
use serde_json::{json, Value as J};
use std::sync::Arc;

#[derive(Clone, Debug, PartialEq)]
enum Expect {
    /// accepted: total minutes (second value: the other rounding of an exact tie)
    Minutes(u32, u32),
    Servings(Vec<u32>),
    Tags(Vec<String>),
    NameUrl(Option<String>, Option<String>),
    Locale(String, Option<String>),
    /// `time` given as a mapping with prep / cook
    Composed(Option<u32>, Option<u32>),
    /// outside the documented forms: warning at parse time, nothing from the accessor
    Rejected,
}

#[derive(Clone, Debug)]
struct Case {
    key: &'static str,
    /// text of the value as written after `key: `
    text: String,
    /// 0 = `>>`, 1 = front matter quoted string, 2 = front matter verbatim (numbers, lists, mappings)
    spelling: u8,
    expect: Expect,
}

struct ConvSet {
    name: &'static str,
    conv: Converter,
    /// (key, seconds per unit)
    time_units: Vec<(String, u128)>,
}

fn conv_sets() -> Vec<ConvSet> {
    let mut v = Vec::new();
    let spanish_src = std::fs::read_to_string("/repo/units/spanish.toml").unwrap_or_default();
    let spanish = toml::from_str::<UnitsFile>(&spanish_src).ok().and_then(|f| {
        ConverterBuilder::new().with_units_file(UnitsFile::bundled()).ok()?.with_units_file(f).ok()?.finish().ok()
    });
    let mut list = vec![("bundled", Converter::bundled()), ("empty", Converter::empty())];
    if let Some(s) = spanish {
        list.push(("bundled+spanish", s));
    } else {
        ctx().note("units/spanish.toml could not be loaded as a layer over the bundled units; the renamed-units converter is not part of this run");
    }
    // minutes renamed so that none of the spellings the implementation looks for is a time unit
    let renamed = toml::from_str::<UnitsFile>("[extend]\nprecedence = \"override\"\n[extend.units]\nmin = { names = [\"minuto\", \"minutos\"], symbols = [\"mn\"], aliases = [] }\n[[quantity]]\nquantity = \"time\"\nbest = [\"s\", \"h\", \"mn\", \"d\"]\n")
        .ok()
        .and_then(|f| ConverterBuilder::new().with_units_file(UnitsFile::bundled()).ok()?.with_units_file(f).ok()?.finish().ok());
    match renamed {
        Some(r) => list.push(("bundled with minutes renamed", r)),
        None => ctx().note("the converter with renamed minutes could not be built; it is not part of this run"),
    }
    // a converter whose time scale is based on the minute (ratios 1, 60, 1440, 10080) instead of the second
    let minute_based = toml::from_str::<UnitsFile>(
        r#"default_system = "metric"
[[quantity]]
quantity = "volume"
best = ["l"]
units = [ { names = ["litre"], symbols = ["l"], ratio = 1 } ]
[[quantity]]
quantity = "mass"
best = ["g"]
units = [ { names = ["gram"], symbols = ["g"], ratio = 1 } ]
[[quantity]]
quantity = "length"
best = ["cm"]
units = [ { names = ["centimetre"], symbols = ["cm"], ratio = 1 } ]
[[quantity]]
quantity = "temperature"
best = ["C"]
units = [ { names = ["celsius"], symbols = ["C"], ratio = 1, difference = 273.15 } ]
[[quantity]]
quantity = "time"
best = ["min", "h", "d"]
units = [
 { names = ["minute", "minutes"], symbols = ["min"], ratio = 1 },
 { names = ["hour", "hours"], symbols = ["h"], ratio = 60 },
 { names = ["day", "days"], symbols = ["d"], ratio = 1440 },
 { names = ["week", "weeks"], symbols = ["wk"], ratio = 10080 },
]
"#,
    )
        .ok()
        .and_then(|f| ConverterBuilder::new().with_units_file(f).ok()?.finish().ok());
    match minute_based {
        Some(r) => list.push(("minute-based time units", r)),
        None => ctx().note("the converter with minute-based time units could not be built; it is not part of this run"),
    }
    for (name, conv) in list {
        let mut time_units = Vec::new();
        if name == "bundled with minutes renamed" {
            // no unit spelling is expected to be accepted here; only numbers, compact forms and rejections are generated
            v.push(ConvSet { name, conv, time_units });
            continue;
        }
        if conv.unit_count() == 0 {
            for (k, s) in [("s", 1), ("sec", 1), ("secs", 1), ("second", 1), ("seconds", 1), ("m", 60), ("min", 60), ("minute", 60), ("minutes", 60), ("h", 3600), ("hour", 3600), ("hours", 3600), ("d", 86400), ("day", 86400), ("days", 86400)] {
                time_units.push((k.to_string(), s as u128));
            }
        } else {
            // seconds per unit, relative to the converter's own minute
            let minute = ["min", "minute", "minutes", "m"].iter().find_map(|k| conv.find_unit(k)).map(|u| u.ratio).unwrap_or(60.0);
            for u in conv.all_units() {
                if u.physical_quantity == PhysicalQuantity::Time {
                    let secs = match u.ratio / minute * 60.0 {
                        r if r == 1.0 => 1,
                        r if r == 60.0 => 60,
                        r if r == 3600.0 => 3600,
                        r if r == 86400.0 => 86400,
                        r if r == 604800.0 => 604800,
                        _ => continue,
                    };
                    for k in u.names.iter().chain(&u.symbols).chain(&u.aliases) {
                        if !k.contains(' ') {
                            time_units.push((k.to_string(), secs));
                        }
                    }
                }
            }
        }
        v.push(ConvSet { name, conv, time_units });
    }
    v
}

/// total given in half seconds -> expected minutes (both roundings of a tie)
fn minutes_of(half_seconds: u128) -> Expect {
    let q = half_seconds / 120;
    let r = half_seconds % 120;
    let (a, b) = if r < 60 {
        (q, q)
    } else if r > 60 {
        (q + 1, q + 1)
    } else {
        (q + 1, q)
    };
    match (u32::try_from(a), u32::try_from(b)) {
        (Ok(a), Ok(b)) => Expect::Minutes(a, b),
        _ => Expect::Rejected,
    }
}

const BOUNDARY: [u128; 12] = [0, 1, 2, 59, 60, 90, 1439, 71_582_788, 71_582_789, 4_294_967_295, 4_294_967_296, 99_999_999_999];

fn duration_cases(set: &ConvSet) -> Vec<Case> {
    let mut forms: Vec<(String, Expect)> = Vec::new();
    for &a in &BOUNDARY {
        forms.push((format!("{a}"), minutes_of(a * 120)));
        forms.push((format!("{a}m"), minutes_of(a * 120)));
        forms.push((format!("{a}h"), minutes_of(a * 7200)));
        for &b in &BOUNDARY[..10] {
            forms.push((format!("{a}h{b}m"), minutes_of(a * 7200 + b * 120)));
        }
        for (k, secs) in &set.time_units {
            forms.push((format!("{a} {k}"), minutes_of(a * secs * 2)));
            forms.push((format!("{a}{k}"), minutes_of(a * secs * 2)));
            for &b in &BOUNDARY[..7] {
                forms.push((format!("{a} {k} {b} min"), minutes_of(a * secs * 2 + b * 120)));
                forms.push((format!("{b}h {a}{k}"), minutes_of(b * 7200 + a * secs * 2)));
            }
        }
    }
    // decimals and three-part forms
    for (k, secs) in &set.time_units {
        forms.push((format!("1.5 {k}"), minutes_of(3 * secs)));
        forms.push((format!("0.5{k}"), minutes_of(*secs)));
    }
    for (h, m, s) in [(1u128, 30u128, 30u128), (0, 0, 29), (0, 0, 31), (2, 59, 59), (23, 59, 60), (71_582_788, 15, 0), (71_582_788, 15, 29), (71_582_788, 16, 0)] {
        let find = |secs: u128| set.time_units.iter().filter(|(_, s)| *s == secs).map(|(k, _)| k.clone()).collect::<Vec<_>>();
        for hk in find(3600).iter().take(2) {
            for mk in find(60).iter().take(2) {
                for sk in find(1).iter().take(2) {
                    forms.push((format!("{h} {hk} {m} {mk} {s} {sk}"), minutes_of(h * 7200 + m * 120 + s * 2)));
                }
            }
        }
    }
    // quantities in units that are known but are not time
    for bad in ["5 km", "2 tsp", "3 kg", "1 l", "1h 5 kg", "2 cups 3 min"] {
        forms.push((bad.to_string(), Expect::Rejected));
    }
    for bad in ["abc", "1 parsec", "1h 30", "h", "1.5.2 min", "-5", "-0.4", "NaN", "inf", "-inf", "1hh", "min 5", "5 min 3", "1e99", "4294967295.6", "1h-5m"] {
        forms.push((bad.to_string(), Expect::Rejected));
    }
    let mut out = Vec::new();
    for key in ["time", "prep time", "cook time"] {
        for (text, expect) in &forms {
            for spelling in [0u8, 1, 5, 6] {
                out.push(Case { key, text: text.clone(), spelling, expect: expect.clone() });
            }
            if text.bytes().all(|b| b.is_ascii_digit()) {
                out.push(Case { key, text: text.clone(), spelling: 2, expect: expect.clone() });
            }
        }
    }
    out
}

fn other_cases() -> Vec<Case> {
    let mut out = Vec::new();
    let mut push = |key: &'static str, text: &str, spellings: &[u8], expect: Expect| {
        for &s in spellings {
            out.push(Case { key, text: text.to_string(), spelling: s, expect: expect.clone() });
            if s == 1 {
                // the quoted-string spelling again with the key quoted, and inside a flow mapping
                out.push(Case { key, text: text.to_string(), spelling: 5, expect: expect.clone() });
                out.push(Case { key, text: text.to_string(), spelling: 6, expect: expect.clone() });
            }
        }
    };
    let s = |v: &[u32]| Expect::Servings(v.to_vec());
    // time as a mapping
    for (t, e) in [
        ("\n  prep: 10 min\n  cook: 1h30m", Expect::Composed(Some(10), Some(90))),
        ("\n  prep: 15", Expect::Composed(Some(15), None)),
        ("\n  cook: \"2 h\"", Expect::Composed(None, Some(120))),
        ("{prep: 5, cook: 71582788h}", Expect::Composed(Some(5), Some(4294967280))),
        ("{prep: 5, cook: 71582789h}", Expect::Rejected),
        ("{prep: 4294967296}", Expect::Rejected),
        ("{prep: soon}", Expect::Rejected),
        ("{cook: [1]}", Expect::Rejected),
        ("[10, 20]", Expect::Rejected),
        ("true", Expect::Rejected),
    ] {
        push("time", t, &[2], e);
    }
    // servings
    for (t, e) in [
        ("2", s(&[2])), ("0", s(&[0])), ("4294967295", s(&[4294967295])), ("2|4", s(&[2, 4])), ("2 | 4 | 6", s(&[2, 4, 6])), ("5 cups worth", s(&[5])),
        ("2 people|4 people", s(&[2, 4])), ("1|2|3", s(&[1, 2, 3])), ("12 servings | 24", s(&[12, 24])),
        ("2|2", Expect::Rejected), ("1|2|1", Expect::Rejected), ("4294967296", Expect::Rejected), ("abc", Expect::Rejected), ("two", Expect::Rejected), ("-2", Expect::Rejected), ("2|x", Expect::Rejected), ("|2", Expect::Rejected),
    ] {
        push("servings", t, &[0, 1], e);
    }
    for (t, e) in [
        ("2", s(&[2])), ("4294967295", s(&[4294967295])), ("[2, 4]", s(&[2, 4])), ("[2, 4, 8]", s(&[2, 4, 8])), ("[\"2\", \"4 people\"]", s(&[2, 4])), ("[6]", s(&[6])),
        ("[2, 2]", Expect::Rejected), ("[2, \"2 people\"]", Expect::Rejected), ("4294967296", Expect::Rejected), ("[1, 4294967296]", Expect::Rejected), ("[a, b]", Expect::Rejected), ("{a: 1}", Expect::Rejected), ("true", Expect::Rejected), ("[1, [2]]", Expect::Rejected),
    ] {
        push("servings", t, &[2], e);
    }
    // tags
    let t = |v: &[&str]| Expect::Tags(v.iter().map(|s| s.to_string()).collect());
    for (txt, e) in [("a", t(&["a"])), ("a, b", t(&["a", "b"])), (" a ,b ,, a", t(&["a", "b"])), ("a,,b,", t(&["a", "b"])), ("vegan, gluten free ,vegan", t(&["vegan", "gluten free"])), (",", t(&[])), ("ice  cream,  b", t(&["ice  cream", "b"]))] {
        push("tags", txt, &[0, 1], e);
    }
    for (txt, e) in [("[a, b]", t(&["a", "b"])), ("[a, b, a]", t(&["a", "b"])), ("[1, 2]", t(&["1", "2"])), ("[a]", t(&["a"])), ("[]", t(&[])), ("{a: b}", Expect::Rejected), ("5", Expect::Rejected), ("true", Expect::Rejected), ("[[a]]", Expect::Rejected), ("[a, {b: c}]", Expect::Rejected)] {
        push("tags", txt, &[2], e);
    }
    // name and url, the seven documented forms with valid and invalid urls
    let valid = ["https://moms-cookbook.url", "http://a.b/c?d=e", "ftp://host", "https://a.b/my  book"];
    let invalid = ["notaurl", "foo bar", "example.com", "://x", "http://", "http:// x"];
    let nu = |n: Option<&str>, u: Option<&str>| Expect::NameUrl(n.map(|s| s.to_string()), u.map(|s| s.to_string()));
    for key in ["author", "source"] {
        for name in ["Mom", "Mom's Cookbook", "A B C", "Rachel  R.  P"] {
            push(key, name, &[0, 1], nu(Some(name), None));
            for v in valid {
                push(key, &format!("{name} <{v}>"), &[0, 1], nu(Some(name), Some(v)));
                push(key, &format!("{name}<{v}>"), &[0, 1], nu(Some(name), Some(v)));
            }
            for i in invalid {
                let whole = format!("{name} <{i}>");
                push(key, &whole, &[0, 1], nu(Some(&whole), None));
            }
        }
        for v in valid {
            push(key, v, &[0, 1], nu(None, Some(v)));
            push(key, &format!("<{v}>"), &[0, 1], nu(None, Some(v)));
        }
        for i in invalid {
            push(key, i, &[0, 1], nu(Some(i), None));
            let b = format!("<{i}>");
            push(key, &b, &[0, 1], nu(Some(&b), None));
        }
        push(key, "{name: Mom, url: \"https://a.b\"}", &[2], nu(Some("Mom"), Some("https://a.b")));
        push(key, "{name: Mom}", &[2], nu(Some("Mom"), None));
        push(key, "{url: \"https://a.b\"}", &[2], nu(None, Some("https://a.b")));
        push(key, "{x: y}", &[2], Expect::Rejected);
        push(key, "[a]", &[2], Expect::Rejected);
        push(key, "true", &[2], Expect::Rejected);
    }
    // locale
    for l in ["en", "es", "EN", "zh"] {
        push("locale", l, &[0, 1], Expect::Locale(l.to_string(), None));
        for c in ["GB", "es", "US"] {
            push("locale", &format!("{l}_{c}"), &[0, 1], Expect::Locale(l.to_string(), Some(c.to_string())));
        }
    }
    for bad in ["e", "eng", "en-GB", "en_G", "en_GBR", "e1", "en_", "_GB", "en_G1", "en_GB_x", "en GB", "é", "e_GB", "1"] {
        push("locale", bad, &[0, 1], Expect::Rejected);
    }
    push("locale", "[en]", &[2], Expect::Rejected);
    push("locale", "5", &[2], Expect::Rejected);
    out
}

fn source(key: &str, text: &str, spelling: u8) -> String {
    source_with_alias(key, key, text, spelling, 0)
}

/// another spelling of the same standard key with a valid value, if the key has one
fn alias_entry(key: &str) -> Option<&'static str> {
    Some(match key {
        "tags" => "tag: x",
        "servings" => "serves: 3",
        "time" => "duration: 10",
        "prep time" => "prep_time: 5",
        "cook time" => "cook_time: 5",
        _ => return None,
    })
}

/// `alias_pos`: 0 = no other entry, 1 = the alias spelling of `std_key` (valid value) before the entry, 2 = after it,
/// 3 / 4 = a valid `prep time` entry before / after a `time` entry (also in the `>>` spelling)
fn source_with_alias(std_key: &str, key: &str, text: &str, spelling: u8, alias_pos: u8) -> String {
    let alias = match alias_pos {
        0 => None,
        1 | 2 => alias_entry(std_key),
        3 | 4 => (std_key == "time").then_some("prep time: 10"),
        // two earlier entries for which the caller's validator flips its switches (see `parse_case`)
        _ => Some(if spelling == 0 { "qq: 1\n>> ww: 1" } else { "qq: 1\nww: 1" }),
    };
    let pre = if spelling == 0 { ">> " } else { "" };
    let (before, after) = match (alias, alias_pos) {
        (Some(a), 1 | 3 | 5) => (format!("{pre}{a}\n"), String::new()),
        (Some(a), 2 | 4) => (String::new(), format!("{pre}{a}\n")),
        _ => (String::new(), String::new()),
    };
    match spelling {
        0 => format!("{before}>> {key}: {text}\n{after}step\n"),
        1 => format!("---\n{before}{key}: \"{}\"\n{after}---\nstep\n", text.replace('\\', "\\\\").replace('"', "\\\"")),
        // the key itself quoted, and the whole front matter as a flow mapping
        5 => format!("---\n{before}\"{key}\": \"{}\"\n{after}---\nstep\n", text.replace('\\', "\\\\").replace('"', "\\\"")),
        6 => format!("---\n{{\"{key}\": \"{}\", other: 1}}\n---\nstep\n", text.replace('\\', "\\\\").replace('"', "\\\"")),
        _ => format!("---\n{before}{key}: {text}\n{after}---\nstep\n"),
    }
}

/// with `validator`: a caller-supplied metadata validator that switches the standard checks off for the
/// entry `qq` and excludes the entry `ww`, and leaves every other entry alone
fn parse_case(parser: &CooklangParser, src: &str, validator: bool) -> cooklang::RecipeResult {
    if !validator {
        return parser.parse(src);
    }
    use cooklang::analysis::{CheckOptions, CheckResult};
    parser.parse_with_options(
        src,
        cooklang::ParseOptions {
            recipe_ref_check: None,
            metadata_validator: Some(Box::new(|k: &serde_yaml::Value, _v: &serde_yaml::Value, o: &mut CheckOptions| {
                match k.as_str() {
                    Some("qq") => o.run_std_checks(false),
                    Some("ww") => o.include(false),
                    _ => {}
                }
                CheckResult::Ok
            })),
        },
    )
}

fn n_warnings(r: &cooklang::RecipeResult) -> usize {
    r.report().iter().filter(|d| d.severity == Severity::Warning).count()
}
fn n_errors(r: &cooklang::RecipeResult) -> usize {
    r.report().iter().filter(|d| d.severity == Severity::Error).count()
}

fn eval_case(parser: &CooklangParser, cname: &str, c: &Case) -> Option<Violation> {
    // front-matter entries are also checked next to another spelling of the same standard key
    for alias_pos in 0..6u8 {
        if matches!(alias_pos, 1 | 2) && (c.spelling == 0 || c.spelling == 6 || alias_entry(c.key).is_none()) {
            continue;
        }
        if alias_pos >= 3 && c.spelling == 6 {
            continue;
        }
        if matches!(alias_pos, 3 | 4) && (c.key != "time" || matches!(c.expect, Expect::Composed(..))) {
            continue;
        }
        if let Some(v) = eval_case_at(parser, cname, c, alias_pos) {
            return Some(v);
        }
    }
    None
}

fn eval_case_at(parser: &CooklangParser, cname: &str, c: &Case, alias_pos: u8) -> Option<Violation> {
    let src = source_with_alias(c.key, c.key, &c.text, c.spelling, alias_pos);
    let baseline_src = source_with_alias(c.key, "zz", &c.text, c.spelling, alias_pos);
    let conv = parser.converter();
    let r = parse_case(parser, &src, alias_pos == 5);
    let b = parse_case(parser, &baseline_src, alias_pos == 5);
    let case = json!({"kind": "form", "key": c.key, "text": c.text, "spelling": c.spelling, "converter": cname, "source": src, "alias_pos": alias_pos});
    macro_rules! fail {
        ($class:expr, $($arg:tt)*) => {
            return Some(Violation::new($class, format!("{src:?} with the {cname} converter: {}", format!($($arg)*)), case))
        };
    }
    let Some(o) = r.output() else { fail!("no output for a metadata-only recipe", "report {:?}", crate::oracles::diag_summary(r.report())) };
    if n_errors(&r) != 0 {
        fail!("error for a metadata value", "report {:?}", crate::oracles::diag_summary(r.report()));
    }
    let mut extra = n_warnings(&r) as i64 - n_warnings(&b) as i64;
    if matches!(alias_pos, 3 | 4) && c.expect != Expect::Rejected {
        // a valid `time` next to `prep time` may be announced as overriding it: not counted
        extra = 0;
    }
    let md = &o.metadata;
    let val = md.get(c.key);
    // accessor results
    let observed: Option<Expect> = match c.key {
        "time" => match md.time(conv) {
            Some(RecipeTime::Total(m)) => Some(Expect::Minutes(m, m)),
            Some(RecipeTime::Composed { prep_time, cook_time }) => {
                if !matches!(c.expect, Expect::Composed(..) | Expect::Rejected) {
                    fail!("time accessor returned a composed time for a single value", "{prep_time:?} {cook_time:?}");
                }
                Some(Expect::Composed(prep_time, cook_time))
            }
            None => None,
        },
        "prep time" | "cook time" => {
            let direct = val.and_then(|v| v.as_minutes(conv));
            let via = md.time(conv);
            let expect_via = direct.map(|m| if c.key == "prep time" { RecipeTime::Composed { prep_time: Some(m), cook_time: None } } else { RecipeTime::Composed { prep_time: None, cook_time: Some(m) } });
            if via != expect_via {
                fail!("Metadata::time disagrees with as_minutes", "as_minutes = {direct:?}, time() = {via:?}");
            }
            direct.map(|m| Expect::Minutes(m, m))
        }
        "servings" => {
            let a = md.servings();
            // (which of two spellings feeds the stored servings is not defined by the property: not compared then)
            if alias_pos == 0 && a.as_deref() != o.servings() {
                fail!("recipe servings differ from the metadata accessor", "accessor {a:?}, recipe.servings() {:?}", o.servings());
            }
            a.map(Expect::Servings)
        }
        "tags" => md.tags().map(|t| Expect::Tags(t.into_iter().map(|s| s.into_owned()).collect())),
        "author" | "source" => {
            let a = if c.key == "author" { md.author() } else { md.source() };
            a.map(|n| Expect::NameUrl(n.name().map(|s| s.to_string()), n.url().map(|s| s.to_string())))
        }
        "locale" => md.locale().map(|(l, d)| Expect::Locale(l.to_string(), d.map(|s| s.to_string()))),
        _ => None,
    };
    match (&c.expect, &observed) {
        (Expect::Rejected, None) => {
            if extra < 1 {
                fail!("value outside the documented forms accepted without a warning", "accessor returns nothing but there is no warning ({} warnings, baseline {})", n_warnings(&r), n_warnings(&b));
            }
        }
        (Expect::Rejected, Some(got)) => fail!("value outside the documented forms read as a value", "accessor returned {got:?} (extra warnings: {extra})"),
        (want, None) => fail!("documented form not accepted", "expected {want:?}, accessor returned nothing; report {:?}", crate::oracles::diag_summary(r.report())),
        (Expect::Minutes(a, b2), Some(Expect::Minutes(g, _))) => {
            if g != a && g != b2 {
                fail!("duration read as another number of minutes", "expected {a} minutes, accessor returned {g}");
            }
            // (an additional warning next to a correctly read value is not excluded by the property)
            let _ = extra;
        }
        (want, Some(got)) => {
            if want != got {
                fail!("value read differently from the documentation", "expected {want:?}, accessor returned {got:?}");
            }
            let _ = extra;
        }
    }
    None
}

/// generic coherence on arbitrary values: warning (or error) <=> nothing from the accessor
fn coherence(parser: &CooklangParser, cname: &str, key: &'static str, text: &str, spelling: u8) -> (Option<Violation>, bool) {
    let src = source(key, text, spelling);
    let baseline_src = source("zz", text, spelling);
    let conv = parser.converter();
    let r = parser.parse(&src);
    let b = parser.parse(&baseline_src);
    let case = json!({"kind": "coherence", "key": key, "text": text, "spelling": spelling, "converter": cname, "source": src});
    let Some(o) = r.output() else { return (None, false) };
    let Some(bo) = b.output() else { return (None, false) };
    // the value must have ended up under the key in both parses (the value text may
    // break the line or the YAML document; those inputs are outside this oracle)
    let (Some(v), Some(bv)) = (o.metadata.get(key), bo.metadata.get("zz")) else { return (None, false) };
    if v != bv || n_errors(&r) != 0 || n_errors(&b) != 0 {
        return (None, false);
    }
    let extra = n_warnings(&r) as i64 - n_warnings(&b) as i64;
    let md = &o.metadata;
    let some = match key {
        "time" => md.time(conv).is_some(),
        "prep time" | "cook time" => v.as_minutes(conv).is_some(),
        "servings" => md.servings().is_some(),
        "tags" => md.tags().is_some(),
        "author" => md.author().is_some(),
        "source" => md.source().is_some(),
        "locale" => md.locale().is_some(),
        "title" => md.title().is_some(),
        _ => return (None, false),
    };
    if key == "servings" && md.servings().as_deref() != o.servings() {
        return (Some(Violation::new("recipe servings differ from the metadata accessor", format!("{src:?}: accessor {:?}, recipe.servings() {:?}", md.servings(), o.servings()), case)), true);
    }
    // nothing from the accessor must come with a warning (the converse, a warning next to a value that is
    // read, is not excluded by the property: a style hint for an accepted value is legitimate)
    if !some && extra <= 0 {
        return (
            Some(Violation::new(
                "no warning although the accessor returns nothing",
                format!("{src:?} with the {cname} converter: accessor returns nothing, extra warnings {extra}: {:?}", crate::oracles::diag_summary(r.report())),
                case,
            )),
            true,
        );
    }
    (None, true)
}

pub fn replay(case: &J) -> Vec<Violation> {
    let sets = conv_sets();
    let cname = case["converter"].as_str().unwrap_or("bundled");
    let Some(set) = sets.iter().find(|s| s.name == cname) else { return vec![] };
    let parser = CooklangParser::new(Extensions::all(), set.conv.clone());
    let key: &'static str = Box::leak(case["key"].as_str().unwrap_or("time").to_string().into_boxed_str());
    let text = case["text"].as_str().unwrap_or("");
    let spelling = case["spelling"].as_u64().unwrap_or(0) as u8;
    if case["kind"] == "coherence" {
        return coherence(&parser, cname, key, text, spelling).0.into_iter().collect();
    }
    let mut all = duration_cases(set);
    all.extend(other_cases());
    all.iter().filter(|c| c.key == key && c.text == text && c.spelling == spelling).filter_map(|c| eval_case(&parser, cname, c)).collect()
}

pub fn run(tier: Tier) {
    let c = ctx();
    c.set_rule("complete product of documented forms x boundary values (0, 1, 2, 59, 60, 90, 1439, 71582788, 71582789, 2^32-1, 2^32, 99999999999) x every key of every time unit of each converter x {time, prep time, cook time} x spellings (`>>`, quoted front matter, YAML number) x converters {bundled, empty, bundled+spanish, bundled with minutes renamed, minute-based time units}; front-matter entries also next to another spelling of the same standard key (before and after); servings / tags / author / source / locale forms of the documentation with near misses; oracle = independent exact computation of the rounded total (u128 half-seconds), accept => equal value, reject => one more warning than the same text under a non-standard key and nothing from the accessor; plus, for every string of <= n symbols over the metadata alphabet under every standard key and spelling, accessor returns nothing => warning; non-trivial = form accepted or rejected as predicted with a value under the key; distinct = distinct (key, text, spelling, converter)");
    let sets = Arc::new(conv_sets());
    let others = Arc::new(other_cases());
    for (si, set) in sets.iter().enumerate() {
        let cases = Arc::new(duration_cases(set));
        let n = cases.len() as u64;
        let parser = Arc::new(CooklangParser::new(Extensions::all(), set.conv.clone()));
        let canonical = Arc::new(CooklangParser::new(Extensions::empty(), set.conv.clone()));
        c.part(json!({"converter": set.name, "time_unit_keys": set.time_units.iter().map(|(k, _)| k.clone()).collect::<Vec<_>>(), "duration_cases": n, "other_cases": others.len()}));
        let (cs, ss) = (cases.clone(), sets.clone());
        sweep(&format!("C13 durations, converter {}", set.name), n, move |i| {
            let k = &cs[i as usize];
            json!({"kind": "form", "key": k.key, "text": k.text, "spelling": k.spelling, "converter": ss[si].name})
        }, |idx, local| {
            let case = &cases[idx as usize];
            local.evaluations += 2;
            local.nontrivial += 1;
            let mut out: Vec<Violation> = eval_case(&parser, set.name, case).into_iter().collect();
            if out.is_empty() {
                out.extend(eval_case(&canonical, set.name, case));
            }
            if idx % (n / 3).max(1) == 7 {
                c.sample(json!({"key": case.key, "text": case.text, "spelling": case.spelling, "converter": set.name, "expect": format!("{:?}", case.expect)}));
            }
            out
        });
        let (os, ss) = (others.clone(), sets.clone());
        let m = others.len() as u64;
        sweep(&format!("C13 servings/tags/author/source/locale, converter {}", set.name), m, move |i| {
            let k = &os[i as usize];
            json!({"kind": "form", "key": k.key, "text": k.text, "spelling": k.spelling, "converter": ss[si].name})
        }, |idx, local| {
            let case = &others[idx as usize];
            // with minutes renamed the implementation cannot anchor any unit (it looks for min / minute /
            // minutes / m) and refuses every unit spelling: a conservative refusal, not a wrong number
            if set.time_units.is_empty() && set.name != "empty" && matches!(case.expect, Expect::Composed(..)) && case.text.chars().any(|c| c.is_alphabetic() && !"prepcook".contains(c)) {
                local.outcome("unit spelling under the renamed-minutes converter (skipped)");
                return vec![];
            }
            local.evaluations += 1;
            local.nontrivial += 1;
            if idx % (m / 2).max(1) == 11 {
                c.sample(json!({"key": case.key, "text": case.text, "spelling": case.spelling, "converter": set.name, "expect": format!("{:?}", case.expect)}));
            }
            eval_case(&parser, set.name, case).into_iter().collect()
        });
        if c.has_violations() {
            return;
        }
    }
    // coherence sweep over the metadata alphabet
    let alpha = Arc::new(a_meta());
    c.part(json!({"alphabet": alpha.name, "symbols": alpha.syms}));
    let depth = tier.pick(3, 4);
    let keys: [&'static str; 9] = ["time", "prep time", "cook time", "servings", "tags", "author", "source", "locale", "title"];
    for set in sets.iter().take(2) {
        let parser = Arc::new(CooklangParser::new(Extensions::all(), set.conv.clone()));
        let total = alpha.count_upto(depth);
        let a2 = alpha.clone();
        let name = set.name;
        sweep(&format!("C13 coherence: A_meta strings of 0..={depth} symbols x 9 keys x 3 spellings, converter {}", set.name), total, move |idx| {
            let mut seq = Vec::new();
            let mut s = String::new();
            a2.decode_upto(idx, depth, &mut seq);
            a2.concat(&seq, &mut s);
            json!({"kind": "coherence-group", "text": s, "converter": name})
        }, |idx, local| {
            let mut seq = Vec::new();
            let mut s = String::new();
            alpha.decode_upto(idx, depth, &mut seq);
            alpha.concat(&seq, &mut s);
            if !alpha.is_canonical(&seq, &s) {
                return vec![];
            }
            let mut out = Vec::new();
            for key in keys {
                for spelling in 0..3u8 {
                    if spelling == 1 && s.contains('\\') {
                        continue;
                    }
                    local.evaluations += 1;
                    let (v, nontrivial) = coherence(&parser, set.name, key, &s, spelling);
                    if nontrivial {
                        local.nontrivial += 1;
                    }
                    out.extend(v);
                }
            }
            out
        });
        if c.has_violations() {
            return;
        }
    }
    c.assume("only the canonical key spellings (time, prep time, cook time, servings, tags, author, source, locale) are used; the accessors do not look up the aliases (duration, serves, ...) and the property does not mention them");
    c.assume("an exact tie (x.5 minutes) may round either way; list entries are generated already trimmed");
}
