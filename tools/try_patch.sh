#!/bin/bash
# usage: tools/try_patch.sh <patch.diff> <tier> <ID>...   apply patch to /repo, run the checks, undo it
set -u
P=$(realpath "$1"); TIER=$2; shift 2
if [ -n "$(git -C /repo status --porcelain --untracked-files=no)" ]; then echo "/repo not clean"; exit 2; fi
SAVE=$(mktemp -d); cp -a /verif/evidence/. "$SAVE"/ 2>/dev/null
git -C /repo apply "$P" || { echo "patch does not apply"; exit 2; }
for id in "$@"; do
  out=$(/verif/check "$id" "$TIER" 2>&1); code=$?
  echo "== $id exit=$code"; echo "$out" | grep -E "VIOLATION|violation class|KNOWN-FINDING|OK|engine:|check:" | cut -c1-400 | head -12
done
git -C /repo checkout -- .
rm -rf /verif/evidence; mkdir -p /verif/evidence; cp -a "$SAVE"/. /verif/evidence/; rm -rf "$SAVE" /verif/replays/*
# restore evidence of the unchanged tree is the caller's business
