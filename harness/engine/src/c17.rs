//! C17: line endings, comments and blank space do not change the recipe

use crate::c01::parser_for;
use crate::common::*;
use crate::e2::*;
use crate::gen::*;
use crate::oracles::result_image;
use serde_json::{json, Value as J};
use std::sync::Arc;

#[derive(Clone, Debug)]
enum Edit {
    /// insert text at byte offset
    Insert(usize, &'static str),
    Crlf,
}

fn apply(src: &str, edits: &[Edit]) -> String {
    let mut ins: Vec<(usize, &'static str)> = edits.iter().filter_map(|e| if let Edit::Insert(p, s) = e { Some((*p, *s)) } else { None }).collect();
    ins.sort_by(|a, b| b.0.cmp(&a.0)); // back to front so offsets stay valid
    let mut out = src.to_string();
    for (p, s) in ins {
        out.insert_str(p, s);
    }
    if edits.iter().any(|e| matches!(e, Edit::Crlf)) && !out.contains('\r') {
        out = out.replace('\n', "\r\n");
    }
    out
}

/// every single transformation the property lists, at every insertion point
fn edits_of(p: &Printed) -> Vec<(Edit, &'static str)> {
    let mut v = Vec::new();
    if !p.src.contains('\r') {
        v.push((Edit::Crlf, "LF -> CRLF"));
    }
    for &e in &p.line_ends {
        v.push((Edit::Insert(e, " -- c"), "trailing comment"));
        v.push((Edit::Insert(e, "-- c"), "trailing comment, glued"));
        v.push((Edit::Insert(e, "  "), "trailing spaces"));
        v.push((Edit::Insert(e, "\t"), "trailing tab"));
        v.push((Edit::Insert(e, " [- c -]"), "trailing block comment"));
        v.push((Edit::Insert(e, " [- c -]  "), "trailing block comment and trailing spaces"));
        v.push((Edit::Insert(e, " [- c -] [- d -]"), "two trailing block comments"));
        v.push((Edit::Insert(e, " [- c -] -- d"), "trailing block comment and trailing comment"));
    }
    for &g in &p.gaps {
        v.push((Edit::Insert(g, "[- c -]"), "block comment between words"));
        v.push((Edit::Insert(g, "[- a\nb -]"), "multi-line block comment between words"));
        v.push((Edit::Insert(g, "[-- c --]"), "block comment with dashes between words"));
        v.push((Edit::Insert(g, "[---]"), "block comment of dashes between words"));
        v.push((Edit::Insert(g, "[- c -] "), "block comment and a space between words"));
        v.push((Edit::Insert(g, "[- é 😀 -]"), "block comment with multi-byte characters between words"));
        v.push((Edit::Insert(g, " \n"), "line wrapped with trailing spaces between words"));
    }
    for &g in &p.value_gaps {
        v.push((Edit::Insert(g, "[- c -]"), "block comment between the words of a numeric value"));
        v.push((Edit::Insert(g, "[- c -] "), "block comment and a space between the words of a numeric value"));
        v.push((Edit::Insert(g, "[- é -][- d -]"), "two block comments between the words of a numeric value"));
    }
    let nl = if p.src.contains('\r') { "\r\n" } else { "\n" };
    for &b in &p.block_starts {
        if nl == "\n" {
            v.push((Edit::Insert(b, "\n"), "extra blank line"));
            v.push((Edit::Insert(b, "-- c\n"), "comment-only line"));
            v.push((Edit::Insert(b, "  \n"), "blank line with spaces"));
            v.push((Edit::Insert(b, "[- c -]\n"), "block-comment-only line"));
            v.push((Edit::Insert(b, "\n\n-- c\n\n"), "several blank and comment lines"));
            v.push((Edit::Insert(b, "[- después é -]\n"), "block-comment-only line with multi-byte characters"));
            v.push((Edit::Insert(b, "-- 😀 é\n"), "comment-only line with multi-byte characters"));
        } else {
            v.push((Edit::Insert(b, "\r\n"), "extra blank line"));
            v.push((Edit::Insert(b, "-- c\r\n"), "comment-only line"));
        }
    }
    v
}

fn check_recipe(r: &Recipe, cfg: Config, parser: &cooklang::CooklangParser, pairs: bool, local: &mut Local) -> Vec<Violation> {
    if expected(r, cfg).is_err() {
        local.outcome("model recipe not well-formed (skipped)");
        return vec![];
    }
    local.nontrivial += 1;
    let mut out = Vec::new();
    // base spellings: default and the all-alternatives one
    for mode in [Mode::Prefix(vec![]), Mode::All(1)] {
        let mut ch = Chooser::new(mode);
        let p = print(r, cfg, &mut ch);
        let base = parser.parse(&p.src);
        let base_img = result_image(&base);
        let edits = edits_of(&p);
        let check = |es: &[Edit], what: String, local: &mut Local| -> Option<Violation> {
            let s2 = apply(&p.src, es);
            local.evaluations += 1;
            let r2 = parser.parse(&s2);
            let img = result_image(&r2);
            if img != base_img {
                return Some(Violation::new(
                    format!("{} changes the recipe", what.split(" + ").next().unwrap_or("")),
                    format!("{:?} parses to {base_img}; after [{what}] {s2:?} parses to {img}", p.src),
                    json!({"kind": "metamorphic", "input": p.src, "edited": s2, "extended": cfg.extended, "edit": what}),
                ));
            }
            None
        };
        for (i, (e, name)) in edits.iter().enumerate() {
            if let Some(v) = check(&[e.clone()], name.to_string(), local) {
                out.push(v);
                return out;
            }
            if pairs {
                for (e2, name2) in edits.iter().skip(i + 1) {
                    if let (Edit::Insert(a, _), Edit::Insert(b, _)) = (e, e2) {
                        if a == b {
                            continue;
                        }
                    }
                    if let Some(v) = check(&[e.clone(), e2.clone()], format!("{name} + {name2}"), local) {
                        out.push(v);
                        return out;
                    }
                }
            }
        }
    }
    out
}

/// the same transformations with one very long comment / run of blanks (sizes around 2^16)
fn long_edits(cfg: Config, parser: &cooklang::CooklangParser, local: &mut Local) -> Vec<Violation> {
    let mut out = Vec::new();
    let comps = l1_components(cfg);
    let blocks = l3_alphabet(cfg);
    let mut recipes: Vec<Recipe> = comps.iter().step_by(comps.len() / 5 + 1).map(|c| l1_recipe(c, 1)).collect();
    recipes.extend([vec![0usize, 8, 3], vec![5, 8, 9, 10], vec![6, 10, 0, 9]].iter().filter_map(|s| l3_recipe(&blocks, s)));
    for size in [65_535usize, 65_536, 70_001] {
        let leak = |s: String| -> &'static str { Box::leak(s.into_boxed_str()) };
        let trailing_comment = leak(format!(" -- {}", "c".repeat(size)));
        let trailing_spaces = leak(" ".repeat(size));
        let block_comment = leak(format!("[- {} -]", "é".repeat(size / 2)));
        let comment_line = leak(format!("-- {}\n", "c".repeat(size)));
        let blank_lines = leak("\n".repeat(size));
        for r in &recipes {
            if expected(r, cfg).is_err() {
                continue;
            }
            let mut ch = Chooser::new(Mode::Prefix(vec![]));
            let p = print(r, cfg, &mut ch);
            if p.src.contains('\r') {
                continue;
            }
            let base_img = result_image(&parser.parse(&p.src));
            let mut edits: Vec<(Edit, &'static str)> = Vec::new();
            for &e in &p.line_ends {
                edits.push((Edit::Insert(e, trailing_comment), "very long trailing comment"));
                edits.push((Edit::Insert(e, trailing_spaces), "very many trailing spaces"));
            }
            for &g in p.gaps.iter().chain(&p.value_gaps) {
                edits.push((Edit::Insert(g, block_comment), "very long block comment between words"));
            }
            for &b in &p.block_starts {
                edits.push((Edit::Insert(b, comment_line), "very long comment-only line"));
                edits.push((Edit::Insert(b, blank_lines), "very many blank lines"));
            }
            for (e, name) in edits {
                local.evaluations += 1;
                local.nontrivial += 1;
                let s2 = apply(&p.src, &[e.clone()]);
                let img = result_image(&parser.parse(&s2));
                if img != base_img {
                    let pos = if let Edit::Insert(pos, _) = e { pos } else { 0 };
                    out.push(Violation::new(
                        format!("{name} changes the recipe"),
                        format!("{:?} parses to {base_img}; after [{name} of {size} bytes at offset {pos}] it parses to {img}", p.src),
                        json!({"kind": "long edit", "input": p.src, "extended": cfg.extended, "edit": name, "size": size, "offset": pos}),
                    ));
                    return out;
                }
            }
        }
    }
    out
}

pub fn replay(case: &J) -> Vec<Violation> {
    if case["kind"] == "long edit" {
        let cfg = Config { extended: case["extended"].as_bool().unwrap_or(true) };
        let mut local = Local::for_replay();
        return long_edits(cfg, &parser_for(cfg), &mut local);
    }
    if case["kind"] == "metamorphic" {
        let cfg = Config { extended: case["extended"].as_bool().unwrap_or(true) };
        let parser = parser_for(cfg);
        let a = result_image(&parser.parse(case["input"].as_str().unwrap_or("")));
        let b = result_image(&parser.parse(case["edited"].as_str().unwrap_or("")));
        if a != b {
            return vec![Violation::new("the edit changes the recipe", format!("{a} vs {b}"), case.clone())];
        }
        return vec![];
    }
    let input = case["input"].as_str().unwrap_or("");
    let mut out = vec![];
    for cfg in case["configs"].as_array().cloned().unwrap_or_default() {
        let cfg = crate::strings::Config::from_json(&cfg);
        out.extend(crate::oracles::c17_crlf_check(&cfg, input).0);
    }
    out
}

pub fn run(tier: Tier) {
    let c = ctx();
    c.set_rule("metamorphic: for every well-formed model recipe (L1 components in 2 contexts, L2 pairs, L3 block sequences; both configurations) in its default and its all-alternatives spelling, every single application (thorough: every pair) of: LF->CRLF, a trailing comment / spaces / tab / block comment appended to line i (every Cooklang line), a (multi-line) block comment inserted at inter-word gap j (every gap in step text, paragraphs and multi-word names; single-line comments also at every blank inside a numeric quantity value such as `1 1 / 2` or `2 - 3`), an extra blank / comment-only / block-comment-only line at block boundary k; the normalised recipe image (adjacent text joined, whitespace runs collapsed, ends trimmed, empty text dropped) and validity must be unchanged; plus CRLF / mixed line endings on every token-alphabet string up to n symbols without backslash or lone CR; non-trivial = well-formed recipes / strings with a line break; distinct = distinct edited sources");
    let pairs = tier == Tier::Thorough;
    for cfg in [Config { extended: false }, Config { extended: true }] {
        let cname = if cfg.extended { "extended" } else { "canonical" };
        let parser = Arc::new(parser_for(cfg));
        let comps = Arc::new(l1_components(cfg));
        let (cm, pa) = (comps.clone(), parser.clone());
        let total = comps.len() as u64 * 2;
        sweep(&format!("C17 {cname} L1: {} component shapes x 2 contexts x all single{} edits", comps.len(), if pairs { " and double" } else { "" }), total, {
            let cm = comps.clone();
            move |i| json!({"kind": "model", "layer": "L1", "component": format!("{:?}", cm[(i / 2) as usize])})
        }, move |idx, local| {
            let r = l1_recipe(&cm[(idx / 2) as usize], 1 + 2 * (idx % 2) as usize);
            check_recipe(&r, cfg, &pa, false, local)
        });
        if c.has_violations() {
            return;
        }
        let alpha = Arc::new(l2_alphabet(cfg));
        let k = alpha.len() as u64;
        let (al, pa) = (alpha.clone(), parser.clone());
        sweep(&format!("C17 {cname} L2: pairs of {k} components x 2 layouts"), count_seq(k, 2, 2) * 2, move |i| json!({"kind": "model", "layer": "L2", "index": i}), move |idx, local| {
            let r = l2_recipe(&al, &decode_seq(idx / 2, k, 2, 2), (idx % 2) as usize);
            check_recipe(&r, cfg, &pa, pairs, local)
        });
        if c.has_violations() {
            return;
        }
        let blocks = Arc::new(l3_alphabet(cfg));
        let k = blocks.len() as u64;
        let len = tier.pick(3, 3);
        let (bl, pa) = (blocks.clone(), parser.clone());
        sweep(&format!("C17 {cname} L3: sequences of 1..={len} of {k} blocks"), count_seq(k, 1, len), move |i| json!({"kind": "model", "layer": "L3", "index": i}), move |idx, local| {
            let Some(r) = l3_recipe(&bl, &decode_seq(idx, k, 1, len)) else { return vec![] };
            let v = check_recipe(&r, cfg, &pa, pairs, local);
            if idx % 1777 == 3 {
                let mut ch = Chooser::new(Mode::Prefix(vec![]));
                let p = print(&r, cfg, &mut ch);
                if let Some((e, name)) = edits_of(&p).into_iter().nth(7) {
                    ctx().sample(json!({"source": p.src, "edit": name, "edited": apply(&p.src, &[e])}));
                }
            }
            v
        });
        if c.has_violations() {
            return;
        }
    }
    for cfg in [Config { extended: false }, Config { extended: true }] {
        let parser = Arc::new(parser_for(cfg));
        sweep(&format!("C17 {}: one very long comment / run of blanks (65535, 65536, 70001 bytes) at every insertion point of 8 recipes", if cfg.extended { "extended" } else { "canonical" }), 1, |_| json!({"kind": "long edit"}), move |_, local| long_edits(cfg, &parser, local));
        if c.has_violations() {
            return;
        }
    }
    crate::e1::run_c17_crlf(tier);
    let ev = c.evaluations.load(std::sync::atomic::Ordering::Relaxed);
    c.states.store(ev, std::sync::atomic::Ordering::Relaxed);
    c.transitions.store(ev, std::sync::atomic::Ordering::Relaxed);
    c.traces_validated.store(ev, std::sync::atomic::Ordering::Relaxed);
    c.note("states = edited sources, each parsed by the real parser and compared with the parse of its base source (transitions = edits applied)");
    c.assume("front-matter lines are not edited (YAML is not Cooklang); only the line endings of the whole file change there");
}
